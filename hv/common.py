"""Shared infrastructure: paths, builds, shim client, worker pool, evidence / replay / findings."""
import binascii
import fcntl
import hashlib
import json
import multiprocessing
import os
import subprocess
import sys
import time

VERIF = os.path.dirname(os.path.dirname(os.path.abspath(__file__)))
REPO = os.environ.get('HYEONG_REPO', '/repo')
BUILD = os.path.join(VERIF, '.build')
WORK = os.path.join(BUILD, 'work')
TARGET = os.path.join(BUILD, 'target')
TARGET_BIN = os.path.join(BUILD, 'target-bin')
TARGET_NUM = os.path.join(BUILD, 'target-num')
SHIM = os.path.join(TARGET, 'release', 'hvshim')
HYEONG = os.path.join(TARGET_BIN, 'release', 'hyeong')
NUMLIB = os.path.join(TARGET_NUM, 'release', 'libhyeong.rlib')
NCPU = int(os.environ.get('VERIF_JOBS', '0')) or min(16, os.cpu_count() or 1)
SEED = int(os.environ.get('VERIF_SEED', '0') or 0)


_SGR = None


def strip_sgr(data):
    """removes terminal colour sequences (ESC [ ... m) from bytes or text: what `--color always` adds to the same output"""
    global _SGR
    import re
    if _SGR is None:
        _SGR = (re.compile(rb'\x1b\[[0-9;]*m'), re.compile('\x1b\\[[0-9;]*m'))
    return _SGR[0].sub(b'', data) if isinstance(data, bytes) else _SGR[1].sub('', data)


_PTY_OK = [None]


def pty_available():
    """pseudo terminals may be missing in a sealed sandbox: the terminal runs are then left out (and the evidence says so)"""
    if _PTY_OK[0] is None:
        try:
            import pty
            import termios
            m, s = pty.openpty()
            termios.tcgetattr(s)
            os.close(m)
            os.close(s)
            _PTY_OK[0] = True
        except Exception:
            _PTY_OK[0] = False
    return _PTY_OK[0]


def run_pty(args, data, env=None, timeout=60, cwd=None):
    """runs args with standard output on a pseudo terminal (output post-processing switched off, so bytes arrive as
    written), standard error on a pipe and `data` on a pipe as standard input. Returns (status | 'timeout', terminal
    output, stderr)."""
    import pty
    import select
    import subprocess
    import termios
    import time
    master, slave = pty.openpty()
    attr = termios.tcgetattr(slave)
    attr[1] = attr[1] & ~termios.OPOST          # no NL -> CR NL translation
    termios.tcsetattr(slave, termios.TCSANOW, attr)
    try:
        p = subprocess.Popen(args, stdin=subprocess.PIPE, stdout=slave, stderr=subprocess.PIPE, env=env, cwd=cwd,
                             preexec_fn=child_setup)
    finally:
        os.close(slave)
    out, err = [], []
    try:
        p.stdin.write(data)
        p.stdin.close()
    except OSError:
        pass
    fds = {master: out, p.stderr.fileno(): err}
    t0 = time.time()
    rc = None
    while fds:
        if time.time() - t0 > timeout:
            p.kill()
            rc = 'timeout'
            break
        r, _, _ = select.select(list(fds), [], [], 0.05)
        for fd in r:
            try:
                b = os.read(fd, 65536)
            except OSError:
                b = b''
            if b:
                fds[fd].append(b)
            else:
                del fds[fd]
        if not r and p.poll() is not None:
            # the child is gone: drain what is left on the terminal side, then stop
            for fd in list(fds):
                try:
                    while True:
                        rr, _, _ = select.select([fd], [], [], 0)
                        if not rr:
                            break
                        b = os.read(fd, 65536)
                        if not b:
                            break
                        fds[fd].append(b)
                except OSError:
                    pass
            break
    p.wait()
    os.close(master)
    p.stderr.close()
    return (p.returncode if rc is None else rc), b''.join(out), b''.join(err)


def run_chunked(args, data, chunk, env=None, timeout=60, cwd=None, empty_after=None):
    """runs args with `data` on a standard input that hands it over `chunk` bytes per read: a SOCK_SEQPACKET socket pair,
    one packet per chunk (every read returns exactly one packet: short reads, deterministically), then end of input.
    empty_after = i: an empty packet follows the chunk that starts at byte i.
    Returns (status | 'timeout', stdout, stderr)."""
    import socket
    import subprocess
    import threading
    try:
        a, b = socket.socketpair(socket.AF_UNIX, socket.SOCK_SEQPACKET)
    except OSError as e:
        raise MachineryError('no SOCK_SEQPACKET socket pair in this sandbox: %s' % e)
    try:
        p = subprocess.Popen(args, stdin=b.fileno(), stdout=subprocess.PIPE, stderr=subprocess.PIPE, env=env, cwd=cwd,
                             preexec_fn=child_setup)
    finally:
        b.close()

    def feed():
        try:
            for i in range(0, len(data), chunk):
                a.send(data[i:i + chunk])
                if empty_after is not None and i == empty_after:
                    a.send(b'')            # a read that returns nothing although more input follows
        except OSError:
            pass
        finally:
            a.close()
    t = threading.Thread(target=feed)
    t.start()
    try:
        out, err = p.communicate(timeout=timeout)
        rc = p.returncode
    except subprocess.TimeoutExpired:
        p.kill()
        out, err = p.communicate()
        rc = 'timeout'
    try:
        a.close()
    except OSError:
        pass
    t.join()
    return rc, out, err


def hang_storm(raise_it=False):
    """Workers of one check run share a marker: once one of them has seen three runs end in the time limit, the others stop
    starting new cases (each would cost the full time limit again). The marker carries the pid of the run that owns it."""
    p = os.path.join(WORK, 'hangstorm-%d' % os.getppid())
    if raise_it:
        try:
            open(p, 'w').close()
        except OSError:
            pass
        return True
    return os.path.exists(p)


def clean_stale_work():
    """scratch files and directories are named after the process that made them; what belongs to a process that is gone
    (a run that was interrupted, or ended early on a violation) is removed - a C03 batch directory is about 1 GB"""
    import re
    import shutil
    try:
        names = os.listdir(WORK)
    except OSError:
        return
    for n in names:
        m = re.search(r'-(\d+)(\.[a-z]+)?$', n)
        if not m or os.path.exists('/proc/%s' % m.group(1)):
            continue
        p = os.path.join(WORK, n)
        try:
            if os.path.isdir(p) and not os.path.islink(p):
                shutil.rmtree(p, ignore_errors=True)
            else:
                os.unlink(p)
        except OSError:
            pass


def child_setup():
    """preexec_fn for every process the checks start: die with the parent, bounded CPU time"""
    import ctypes
    import resource
    try:
        ctypes.CDLL('libc.so.6', use_errno=True).prctl(1, 9)      # PR_SET_PDEATHSIG, SIGKILL
    except Exception:
        pass
    try:
        resource.setrlimit(resource.RLIMIT_CPU, (300, 300))
    except Exception:
        pass


class MachineryError(Exception):
    """Something in the checking machinery failed (never a verdict)."""


def hx(s):
    if isinstance(s, str):
        s = s.encode('utf-8')
    return binascii.hexlify(s).decode('ascii')


def unhx(s):
    return binascii.unhexlify(s)


# ------------------------------------------------------------------ builds

def _cargo_env(target):
    env = dict(os.environ)
    env['CARGO_NET_OFFLINE'] = 'true'
    env['CARGO_TARGET_DIR'] = target
    env.pop('RUSTFLAGS', None)
    return env


def _run_build(cmd, cwd, target, what):
    t0 = time.time()
    p = subprocess.run(cmd, cwd=cwd, env=_cargo_env(target), stdout=subprocess.PIPE,
                       stderr=subprocess.STDOUT)
    if p.returncode != 0:
        sys.stderr.write(p.stdout.decode('utf-8', 'replace')[-6000:])
        raise MachineryError('build failed: %s' % what)
    return time.time() - t0


def ensure_built(need_bin=True, need_numlib=False, quiet=False):
    """(Re)build the shim, the hyeong binary and optionally the number-only library from
    REPO's current working tree.  Incremental; serialised through a lock file."""
    os.makedirs(WORK, exist_ok=True)
    shimdir = os.path.join(BUILD, 'shim')
    os.makedirs(shimdir, exist_ok=True)
    lock = open(os.path.join(BUILD, 'lock'), 'w')
    fcntl.flock(lock, fcntl.LOCK_EX)
    try:
        tmpl = open(os.path.join(VERIF, 'shim', 'Cargo.toml.in')).read().replace('@REPO@', REPO)
        tmpl += '\n[[bin]]\nname = "hvshim"\npath = "%s"\n' % os.path.join(VERIF, 'shim', 'src', 'main.rs')
        ct = os.path.join(shimdir, 'Cargo.toml')
        if not os.path.exists(ct) or open(ct).read() != tmpl:
            open(ct, 'w').write(tmpl)
        cl = os.path.join(shimdir, 'Cargo.lock')
        if not os.path.exists(cl) or os.path.getsize(cl) == 0:
            src = os.path.join(VERIF, 'shim', 'Cargo.lock.seed')
            if not os.path.exists(src):
                src = os.path.join(REPO, 'Cargo.lock')
            data = open(src, 'rb').read()
            open(cl, 'wb').write(data)
        # Two source trees at different paths share the names of their final artefacts (hyeong, libhyeong.rlib) inside one
        # target directory, and cargo does not put the right one back when it finds a tree "fresh". When the tree
        # changes (HYEONG_REPO: scratch copies, never in registered runs) the final artefacts are removed so that
        # they are rebuilt from the tree that is being checked.
        stamp = os.path.join(BUILD, 'last_repo')
        last = open(stamp).read() if os.path.exists(stamp) else REPO
        if last != REPO:
            import glob
            import shutil
            for tdir in (TARGET, TARGET_BIN, TARGET_NUM):
                for pat in ('release/hyeong', 'release/hvshim', 'release/libhyeong*', 'release/deps/hyeong-*', 'release/deps/hvshim-*',
                            'release/deps/libhyeong-*', 'release/.fingerprint/hyeong-*', 'release/.fingerprint/hvshim-*'):
                    for f in glob.glob(os.path.join(tdir, pat)):
                        if os.path.isdir(f):
                            shutil.rmtree(f, ignore_errors=True)
                        else:
                            try:
                                os.unlink(f)
                            except OSError:
                                pass
        open(stamp, 'w').write(REPO)
        times = {}
        times['shim'] = _run_build(['cargo', 'build', '--release', '--offline', '-q'], shimdir, TARGET, 'shim')
        if need_bin:
            times['bin'] = _run_build(
                ['cargo', 'build', '--release', '--offline', '-q', '--features', 'verif', '--bin', 'hyeong',
                 '--manifest-path', os.path.join(REPO, 'Cargo.toml')], REPO, TARGET_BIN, 'hyeong binary')
        if need_numlib:
            times['numlib'] = _run_build(
                ['cargo', 'build', '--release', '--offline', '-q', '--lib', '--no-default-features',
                 '--features', 'number', '--manifest-path', os.path.join(REPO, 'Cargo.toml')],
                REPO, TARGET_NUM, 'number-only library')
        if not quiet:
            sys.stderr.write('[build] %s\n' % ' '.join('%s=%.1fs' % kv for kv in times.items()))
    finally:
        fcntl.flock(lock, fcntl.LOCK_UN)
        lock.close()


# ------------------------------------------------------------------ shim client

class ChildResult(object):
    __slots__ = ('status', 'out', 'err', 'extra', 'in_off')

    def __init__(self, line):
        f = line.split('\t')
        if len(f) != 5:
            raise MachineryError('bad child line: %r' % line[:200])
        self.status = f[0]
        self.out = unhx(f[1])
        self.err = unhx(f[2])
        self.extra = unhx(f[3])
        self.in_off = int(f[4])

    @property
    def exit_code(self):
        return int(self.status[5:]) if self.status.startswith('exit=') else None

    @property
    def signal(self):
        return int(self.status[4:]) if self.status.startswith('sig=') else None


class ShimDied(MachineryError):
    pass


class Shim(object):
    def __init__(self):
        self.log = None
        self.start()

    def mark(self):
        """start logging requests: after a shim death the log is replayed one by one to find the culprit"""
        self.log = []

    def start(self):
        env = dict(os.environ)
        env['RUST_BACKTRACE'] = '0'
        self.p = subprocess.Popen([SHIM], stdin=subprocess.PIPE, stdout=subprocess.PIPE, bufsize=1 << 16, env=env)

    def close(self):
        try:
            self.p.stdin.close()
            self.p.wait(timeout=5)
        except Exception:
            self.p.kill()

    def send(self, *fields):
        b = ('\t'.join(str(f) for f in fields) + '\n').encode('utf-8')
        if self.log is not None:
            self.log.append(b)
        try:
            self.p.stdin.write(b)
        except BrokenPipeError:
            raise ShimDied('shim died (status %r)' % self.p.poll())

    def recv(self):
        l = self.p.stdout.readline()
        if not l:
            raise ShimDied('shim died (status %r)' % self.p.poll())
        return l[:-1].decode('utf-8', 'replace')

    def culprit(self):
        """after a ShimDied: restart and replay the logged requests one at a time; returns the request that
        kills (or hangs) the shim, or None if the death does not reproduce"""
        log = self.log or []
        self.log = None
        try:
            self.p.kill()
        except Exception:
            pass
        self.start()
        for b in log:
            try:
                self.p.stdin.write(b)
                self.p.stdin.flush()
                if not self.p.stdout.readline():
                    raise ShimDied('died')
            except (ShimDied, BrokenPipeError):
                self.start()
                return b.decode('utf-8', 'replace').rstrip('\n')
        return None

    def call(self, *fields):
        self.send(*fields)
        self.p.stdin.flush()
        return self.recv()

    def batch(self, reqs, limit=24000):
        """pipelined calls; reqs = list of field tuples; returns list of response lines"""
        out = []
        buf = []
        size = 0
        n = 0
        for r in reqs:
            b = ('\t'.join(str(f) for f in r) + '\n').encode('utf-8')
            if self.log is not None:
                self.log.append(b)
            if size + len(b) > limit and n:
                try:
                    self.p.stdin.write(b''.join(buf))
                    self.p.stdin.flush()
                except BrokenPipeError:
                    raise ShimDied('shim died (status %r)' % self.p.poll())
                for _ in range(n):
                    out.append(self.recv())
                buf, size, n = [], 0, 0
            buf.append(b)
            size += len(b)
            n += 1
        if n:
            try:
                self.p.stdin.write(b''.join(buf))
                self.p.stdin.flush()
            except BrokenPipeError:
                raise ShimDied('shim died (status %r)' % self.p.poll())
            for _ in range(n):
                out.append(self.recv())
        return out

    # convenience wrappers
    def child(self, *fields):
        return ChildResult(self.call(*fields))

    def run(self, path, level, budget, stdin=b'', timeout=20):
        return self.child('run', hx(path), level, budget, hx(stdin), timeout)


_SHIM = [None]


def shim():
    if _SHIM[0] is None or _SHIM[0].p.poll() is not None:
        _SHIM[0] = Shim()
    return _SHIM[0]


# ------------------------------------------------------------------ worker pool

def _worker_call(item):
    func, args = item
    return func(*args)


def pmap(func, arglist, chunksize=1):
    """Run func(*args) for every args in arglist on NCPU forked workers; yields results
    (unordered).  Each worker owns one shim process (created lazily by shim())."""
    items = [(func, a) for a in arglist]
    if NCPU <= 1 or len(items) <= 1:
        for it in items:
            yield _worker_call(it)
        return
    ctx = multiprocessing.get_context('fork')
    _SHIM[0] = None
    pool = ctx.Pool(NCPU)
    try:
        for r in pool.imap_unordered(_worker_call, items, chunksize):
            yield r
    finally:
        pool.close()
        pool.terminate()
        pool.join()


# ------------------------------------------------------------------ violations, evidence, findings

class Violation(object):
    """One counterexample.  `case` is a JSON-able dict that the engine's replay() understands;
    `klass` is a short witness class used to match known findings."""

    def __init__(self, prop, engine, klass, case, expected, observed, note=''):
        self.prop = prop
        self.engine = engine
        self.klass = klass
        self.case = case
        self.expected = expected
        self.observed = observed
        self.note = note

    def to_json(self):
        return {'property': self.prop, 'engine': self.engine, 'class': self.klass, 'case': self.case,
                'expected': self.expected, 'observed': self.observed, 'note': self.note}

    def digest(self):
        return hashlib.sha1(json.dumps([self.prop, self.engine, self.case], sort_keys=True,
                                       ensure_ascii=True).encode()).hexdigest()[:12]


def write_replay(v):
    d = os.path.join(VERIF, 'replays')
    os.makedirs(d, exist_ok=True)
    p = os.path.join(d, '%s-%s.json' % (v.prop, v.digest()))
    with open(p, 'w') as f:
        json.dump(v.to_json(), f, ensure_ascii=False, indent=1, sort_keys=True)
    return p


def load_findings():
    p = os.path.join(VERIF, 'known_findings.json')
    if not os.path.exists(p):
        return {'open': [], 'fixed': []}
    return json.load(open(p))


def write_evidence(prop, tier, coverage, wall_s, violations, assumptions):
    d = os.path.join(VERIF, 'evidence')
    os.makedirs(d, exist_ok=True)
    ev = {
        'property_id': prop,
        'tier': tier,
        'seed': SEED,
        'level': 'model_checking',
        'coverage': coverage,
        'assumptions': assumptions,
        'wall_s': round(wall_s, 2),
        'violations': violations,
    }
    tmp = os.path.join(d, prop + '.json.tmp')
    with open(tmp, 'w') as f:
        json.dump(ev, f, ensure_ascii=False, indent=1)
    os.replace(tmp, os.path.join(d, prop + '.json'))


def pick_samples(cases, k=5):
    """deterministic choice of up to k sample cases rotated by VERIF_SEED"""
    cases = list(cases)
    if len(cases) <= k:
        return cases
    step = max(1, len(cases) // k)
    off = SEED % step
    return [cases[(off + i * step) % len(cases)] for i in range(k)]


class Stats(object):
    """additive counters + bounded sample lists + distinct-outcome sets, mergeable across workers"""

    def __init__(self):
        self.n = {}
        self.sets = {}
        self.samples = []
        self.violations = []

    def inc(self, k, d=1):
        self.n[k] = self.n.get(k, 0) + d

    def add(self, k, item, cap=200000):
        s = self.sets.setdefault(k, set())
        if len(s) < cap:
            s.add(item)

    def sample(self, item, cap=8):
        if len(self.samples) < cap:
            self.samples.append(item)

    def violate(self, v, cap=3):
        self.inc('violations')
        k = 'viol:' + v.klass
        self.inc(k)
        if self.n[k] <= cap:
            self.violations.append(v)

    def merge(self, o):
        for k, v in o.n.items():
            self.n[k] = self.n.get(k, 0) + v
        for k, v in o.sets.items():
            s = self.sets.setdefault(k, set())
            if len(s) < 2000000:
                s |= v
        for s in o.samples:
            if len(self.samples) < 64:
                self.samples.append(s)
        per = {}
        for v in self.violations:
            per[v.klass] = per.get(v.klass, 0) + 1
        for v in o.violations:
            if per.get(v.klass, 0) < 12:
                per[v.klass] = per.get(v.klass, 0) + 1
                self.violations.append(v)
        return self


def finish(cov, st):
    """engine epilogue: record how often each violation class occurred"""
    if st.samples:
        # actual cases of this run (which ones are quoted rotates with VERIF_SEED), then the hand-picked illustrations
        cov['samples'] = pick_samples(st.samples, 6) + list(cov.get('samples', []))[:3]
    vc = {k[5:]: v for k, v in st.n.items() if k.startswith('viol:')}
    if vc:
        cov['violation_classes'] = vc
    if st.n.get('aborted_early'):
        cov['exhaustive'] = False
        cov['aborted_early'] = 'stopped after %d violations' % st.n.get('violations', 0)
    return cov, st.violations


def collect(st, results, limit=400):
    """merge worker results; once `limit` violations are known nothing more is learnt by going on, so the
    exploration stops early (recorded in the evidence as aborted_early -- the run is then not exhaustive)"""
    for r in results:
        st.merge(r)
        if st.n.get('violations', 0) >= limit:
            st.n['aborted_early'] = 1
            break
    if hasattr(results, 'close'):
        results.close()
    return st


def guard_task(prop_of, engine):
    """decorator for worker tasks that drive in-process shim modes: when the shim dies (crash in the code under
    test, or the 15 s watchdog) the logged requests are replayed one at a time to pin down the culprit, which is
    reported as a violation of the property (prop_of: property id, or index of the task argument holding it)"""
    import functools

    def deco(f):
        @functools.wraps(f)
        def g(*a, **kw):
            sh = shim()
            sh.mark()
            try:
                r = f(*a, **kw)
                sh.log = None
                return r
            except ShimDied:
                req = sh.culprit()
                if req is None:
                    raise MachineryError('the shim died and the death does not reproduce')
                prop = prop_of if isinstance(prop_of, str) else a[prop_of]
                st = Stats()
                st.violate(Violation(prop, engine, 'crash-or-hang', {'kind': 'shim_request', 'request': req[:600]},
                                     'the operation returns', 'the process died (crash, stack overflow) or did not answer within 15 s'))
                return st
        return g
    return deco


def strip_log_lines(out):
    """stdout of `hyeong run` without the tool's own leading log lines (`==> parsing ...`, `==> optimizing ...`,
    `==> running code`): every leading line that starts with the log marker `==> ` is dropped, whatever its wording"""
    while out.startswith(b'==> '):
        i = out.find(b'\n')
        if i < 0:
            return b''
        out = out[i + 1:]
    return out
