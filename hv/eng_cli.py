"""Engine `cli`: the real binary on every file content / stdin / file name / level of the scope (C13)."""
import itertools
import os
import shutil
import subprocess

from . import refinterp as I
from . import refparse as P
from .common import HYEONG, WORK, Stats, Violation, collect, finish, pmap, child_setup, strip_sgr, run_chunked, hang_storm
from .eng_optdiff import big, push_value

FRAGS = [b'\xed\x98\x95', b'\xed\x95\xad.', b'\xed\x9d\x91', b'\xed\x9d\x91.', b'?', b'\xe2\x99\xa5', b'\n', b'a', b'\x00',
         b'\xff', b'\xc0\x80', b'\xed\xa0\x80', b'\xed\x98', b'\xf4\x90\x80\x80', '하'.encode('utf-8'), '앙'.encode('utf-8')]
STDINS = [b'', b'a', b'\xff', b'\xea\xb0', b'\xed\xa0\x80\n', b'ok\n\xff\n', b'x' * 65536 + b'\n']
BUDGET = 2000


class InputError(Exception):
    pass


def decode_stdin(data):
    """-> (text of the leading valid lines, True if an undecodable line follows)"""
    lines = data.split(b'\n')
    out = []
    for i, l in enumerate(lines):
        last = i == len(lines) - 1
        raw = l if last else l + b'\n'
        try:
            out.append(raw.decode('utf-8'))
        except UnicodeDecodeError:
            return ''.join(out), True
    return ''.join(out), False


class CliMachine(I.Machine):
    bad_tail = False

    def pop(self, i):
        if i == 0 and not self.stacks.get(0) and self.ipos >= len(self.inp) and self.bad_tail:
            raise InputError()
        return I.Machine.pop(self, i)


def predict(text, stdin):
    """ending of the program `text` on stdin bytes: end | exit0 | exit1 | error | budget | unspecified"""
    prog = P.parse(text)
    valid, bad = decode_stdin(stdin)
    m = CliMachine(prog, valid)
    m.bad_tail = bad
    m.value_horizon = 4096
    idx = 0
    steps = 0
    try:
        while idx < len(prog):
            if steps >= BUDGET:
                return 'budget'
            idx = m.step(idx)
            steps += 1
        return 'end'
    except I.Exit as e:
        return 'exit%d' % e.code
    except (I.EncodingError, InputError):
        return 'error'
    except I.Unspecified:
        return 'unspecified'


def reads_stdin(text):
    prog = P.parse(text)
    m = CliMachine(prog, '')
    m.value_horizon = 4096
    idx = 0
    steps = 0
    try:
        while idx < len(prog) and steps < BUDGET:
            idx = m.step(idx)
            steps += 1
    except Exception:
        pass
    return m.reads > 0


def run_bin(args, stdin, cwd, chunk=None):
    env = dict(os.environ)
    env['HYEONG_VERIF_STEPS'] = str(BUDGET)
    env['RUST_BACKTRACE'] = '0'
    if chunk:
        return run_chunked([HYEONG] + args, stdin, chunk, env=env, timeout=30, cwd=cwd)
    try:
        p = subprocess.run(preexec_fn=child_setup, args=[HYEONG] + args, input=stdin, stdout=subprocess.PIPE, stderr=subprocess.PIPE, cwd=cwd, env=env,
                           timeout=30)
        return p.returncode, p.stdout, p.stderr
    except subprocess.TimeoutExpired:
        return 'timeout', b'', b''


def judge(st, case, rc, out, err, expect):
    """expect: 'error' (must be status 1 + [error]) | 'ok' (status 0) | predicted ending | None (totality only)"""
    problems = []
    if rc == 'timeout':
        st.inc('hangs')
        problems.append('did not finish in 30 s')
    elif rc not in (0, 1):
        problems.append('exit status %r' % rc)
    if b'panicked at' in err:
        problems.append('panic: %r' % err[-200:])
    if not problems and expect is not None:
        has_diag = b'[error]' in err
        if expect == 'budget' or expect == 'unspecified':
            pass
        elif expect in ('ok', 'end', 'exit0'):
            if rc != 0:
                problems.append('expected status 0, got %r (%r)' % (rc, err[-120:]))
        elif expect == 'exit1':
            if rc != 1:
                problems.append('expected status 1 (requested by the program), got %r' % rc)
        elif expect == 'error':
            if rc != 1 or not has_diag:
                problems.append('expected status 1 with a diagnostic, got %r / stderr %r' % (rc, err[-160:]))
    st.add('outcome', '%s/%s' % (rc, 'diag' if b'[error]' in err else 'quiet'))
    if len(st.samples) < 3:
        st.sample(dict(case, status=rc, expected=expect))
    if problems:
        st.violate(Violation('C13', 'cli', 'cli:' + problems[0].split(' ')[0], case,
                             'status 0, or the requested status, or 1 with a diagnostic (%s); never a panic/abort' % expect,
                             '; '.join(problems)))


def content_task(contents, tag):
    st = Stats()
    d = os.path.join(WORK, 'cli-%d' % os.getpid())
    os.makedirs(d, exist_ok=True)
    path = os.path.join(d, 'x.hyeong')
    for data in contents:
        if st.n.get('hangs', 0) >= 3 or hang_storm():
            hang_storm(raise_it=st.n.get('hangs', 0) >= 3)
            st.inc('skipped_after_hangs')
            continue        # three executions ran into the 30 s limit: more of the same would only cost hours
        with open(path, 'wb') as f:
            f.write(data)
        try:
            text = data.decode('utf-8')
        except UnicodeDecodeError:
            text = None
        stdins = [b'']
        if text is not None and reads_stdin(text):
            stdins = STDINS
        for sin in stdins:
            for lv in (0, 1, 2):
                rc, out, err = run_bin(['run', '-O%d' % lv, '--color', 'never', path], sin, d)
                st.inc('execs')
                exp = 'error' if text is None else predict(text, sin)
                judge(st, {'kind': 'content', 'content_hex': data.hex(), 'stdin_hex': sin.hex() if len(sin) < 200 else 'x*65536+\\n',
                           'cmd': 'run -O%d' % lv}, rc, out, err, exp)
        rc, out, err = run_bin(['check', '--color', 'never', path], b'', d)
        st.inc('execs')
        judge(st, {'kind': 'content', 'content_hex': data.hex(), 'stdin_hex': '', 'cmd': 'check'}, rc, out, err,
              'error' if text is None else 'ok')
        st.inc('contents')
    shutil.rmtree(d, ignore_errors=True)
    return st


def names_task():
    st = Stats()
    d = os.path.join(WORK, 'cli-names-%d' % os.getpid())
    shutil.rmtree(d, ignore_errors=True)
    os.makedirs(os.path.join(d, 'd.hyeong'))
    good = '형... 항.'.encode('utf-8')
    for name in ('x.hyeong', 'x', 'x.txt', 'x.HYEONG', '.hyeong', 'x.hyeong.bak'):
        with open(os.path.join(d, name), 'wb') as f:
            f.write(good)
    with open(os.path.join(d.encode(), b'\xff.hyeong'), 'wb') as f:
        f.write(good)
    with open(os.path.join(d, '한글 이름.hyeong'), 'wb') as f:
        f.write(good)
    os.chmod(os.path.join(d, 'x.hyeong.bak'), 0)
    # name lengths around the limits of the file system (255 bytes per component, 4096 per path)
    long_cases = []
    for n in (100, 247, 248):                       # + '.hyeong' = 107, 254, 255 bytes: these exist
        nm = 'n' * n + '.hyeong'
        with open(os.path.join(d, nm), 'wb') as f:
            f.write(good)
        long_cases.append((nm, 'ok'))
    nm = '가' * 82 + '.hyeong'                       # 253 bytes in 89 characters
    with open(os.path.join(d, nm), 'wb') as f:
        f.write(good)
    long_cases.append((nm, 'ok'))
    for n in (249, 1000, 4090, 5000, 70000):        # too long for the file system: a diagnostic, never a crash
        long_cases.append(('n' * n + '.hyeong', 'error'))
    long_cases.append(('/'.join(['sub'] * 1500) + '/x.hyeong', 'error'))
    # other ways of naming an existing program: ./, through .., directories with a dot / a blank / Hangul in their names,
    # absolute, through symbolic links to the file and to a directory (.. after such a link is the parent of its target)
    os.makedirs(os.path.join(d, 'sub.dir', 'inner dir'))
    os.makedirs(os.path.join(d, 'real', 'deep'))
    for rel in ('sub.dir/y.hyeong', 'sub.dir/inner dir/프로그램.hyeong', 'real/z.hyeong', 'real/deep/w.hyeong'):
        with open(os.path.join(d, rel), 'wb') as f:
            f.write(good)
    links = True
    try:
        os.symlink('x.hyeong', os.path.join(d, 'link.hyeong'))
        os.symlink('x.txt', os.path.join(d, 'link2.hyeong'))
        os.symlink('real/deep', os.path.join(d, 'ldir'))
        os.symlink('nowhere.hyeong', os.path.join(d, 'dangling.hyeong'))
    except OSError:
        links = False           # a file system without symbolic links: those namings are left out
    st.add('outcome', 'symlinks-available' if links else 'symlinks-NOT-available')
    path_cases = [('./x.hyeong', 'ok'), ('sub.dir/y.hyeong', 'ok'), ('sub.dir/inner dir/프로그램.hyeong', 'ok'),
                  ('sub.dir/../x.hyeong', 'ok'), ('./sub.dir/./inner dir/../y.hyeong', 'ok'), (os.path.join(d, 'x.hyeong'), 'ok'),
                  (os.path.join(d, 'sub.dir', '..', 'real', 'z.hyeong'), 'ok'), ('link.hyeong', 'ok'), ('link2.hyeong', 'ok'),
                  ('ldir/w.hyeong', 'ok'), ('ldir/../z.hyeong', 'ok'), ('real/deep/../../ldir/../z.hyeong', 'ok'),
                  ('dangling.hyeong', 'error'), ('ldir/../x.hyeong', 'error'), ('sub.dir', 'error'), ('sub.dir/', 'error')]
    if not links:
        path_cases = [c for c in path_cases if not any(w in c[0] for w in ('link', 'ldir', 'dangling'))]
    long_cases += path_cases
    cases = long_cases + [('x.hyeong', 'ok'), ('x', 'error'), ('x.txt', 'error'), ('x.HYEONG', 'error'), ('.hyeong', 'error'),
             ('missing.hyeong', 'error'), ('d.hyeong', 'error'), ('nodir/x.hyeong', 'error'), ('한글 이름.hyeong', 'ok'),
             (b'\xff.hyeong', None), ('', 'error'), ('x.hyeong/', 'error')]
    for name, exp in cases:
        if st.n.get('hangs', 0) >= 3 or hang_storm():
            hang_storm(raise_it=st.n.get('hangs', 0) >= 3)
            st.inc('skipped_after_hangs')
            continue
        for sub in (['run', '-O0'], ['run', '-O1'], ['run', '-O2'], ['check'], ['--verbose', 'run', '-O2'], ['--verbose', 'check'],
                    ['run'], ['run', '--optimize', '1'], ['run', '--optimize=2'], ['run', '-O', '2'], ['run', '-O2', 'COLOUR'],
                    ['check', 'COLOUR']):
            colour = b'never'
            if sub[-1] == 'COLOUR':
                sub, colour = sub[:-1], b'always'
            arg = name
            env = dict(os.environ)
            env['RUST_BACKTRACE'] = '0'
            try:
                p = subprocess.run(preexec_fn=child_setup, args=[HYEONG.encode()] + [s.encode() for s in sub] + [b'--color', colour,
                                   arg if isinstance(arg, bytes) else arg.encode()],
                                   input=b'', stdout=subprocess.PIPE, stderr=subprocess.PIPE, cwd=d, env=env, timeout=30)
                rc, out, err = p.returncode, p.stdout, p.stderr
            except subprocess.TimeoutExpired:
                rc, out, err = 'timeout', b'', b''
            st.inc('execs')
            # clap's own usage errors exit with status 2 and are not the tool's diagnostics: only for the
            # empty / non-UTF-8 argument, where the argument parser rejects the command line, this is accepted
            if name in ('', b'\xff.hyeong') and rc == 2 and b'panicked' not in err:
                st.add('outcome', 'usage-error')
                continue
            judge(st, {'kind': 'name', 'name': name.hex() if isinstance(name, bytes) else name,
                       'cmd': ' '.join(sub) + (' --color always' if colour == b'always' else '')}, rc, out, strip_sgr(err), exp)
    shutil.rmtree(d, ignore_errors=True)
    return st


def special_programs():
    out = []
    vals = {'d7ff': 0xD7FF, 'd800': 0xD800, 'dfff': 0xDFFF, 'e000': 0xE000, '10ffff': 0x10FFFF, '110000': 0x110000,
            '2^31': 1 << 31, 'ffffffff': (1 << 32) - 1}
    rd = '흑 항... 흑... '
    for name, n in vals.items():
        for sink in ('.', '..'):
            w = '%s 항%s' % (push_value(n), sink)
            for pre in ('', '형... 항. ', rd, rd + '형... 항.. '):
                for post in ('', ' 형... 항.'):
                    out.append(pre + w + post)
    # fractions with multi-limb parts and huge integers (arithmetic helpers must not panic either)
    for n in (1 << 32, (1 << 32) + 1, 1 << 66, (1 << 64) - 1):
        out.append('%s 흡... 흣.' % push_value(n))                       # prints 1/n
        out.append('%s 형....... 하앗... 흡... 흣.' % push_value(n))       # prints 1/(7n)
        out.append('%s 흡... 형... 하앗... 흑... 하앙... 항.' % push_value(n))   # 6/n written as a character (floor 0)
        out.append('%s 흑... 하앗... 흑... 하앗... 흣.' % push_value(n))   # n^4 in decimal
    # deep areas (bounded as in C04) and long files
    for unit in ('?', '!', '?♥!', '♥?'):
        out.append('형..' + unit * (4096 // (unit.count('?') + unit.count('!'))) + ' 항.')
    out.append('형. ' * 3000)
    out.append('')
    out.append('\n\n  \n')
    out.append('주석만 있는 파일 abc')
    # file sizes around the usual buffer sizes, a 3-byte character across each boundary
    for size, deltas in ((8192, (-1, 0, 1)), (65536, (-1, 0, 1))):
        for delta in deltas:
            head = '형. ' * 50
            tail = ' 형... 항.'
            room = size + delta - len(head.encode('utf-8')) - 2      # the boundary falls inside the run of 3-byte characters
            out.append(head + '가' * (room // 3) + 'x' * (room % 3) + '가가' + tail)
    # size ladders (hv/scale.py) through the real binary
    from . import scale
    out += [scale.deep_program(1, 65, 65), scale.many_labels(65, 7), scale.straight(300), scale.loop_program(180) + ' 항.']
    # beyond the specified range: only "no panic" is checked
    out.append('%s 항.' % big(65536, 65536))
    return out


def special_task(texts):
    st = Stats()
    d = os.path.join(WORK, 'cli-sp-%d' % os.getpid())
    os.makedirs(d, exist_ok=True)
    path = os.path.join(d, 'x.hyeong')
    for text in texts:
        if st.n.get('hangs', 0) >= 3 or hang_storm():
            hang_storm(raise_it=st.n.get('hangs', 0) >= 3)
            st.inc('skipped_after_hangs')
            continue
        with open(path, 'w', encoding='utf-8') as f:
            f.write(text)
        for sin in (b'', b'ab\n', b'\xff\n'):
            exp = predict(text, sin)
            for lv in (0, 1, 2):
                rc, out, err = run_bin(['run', '-O%d' % lv, '--color', 'never', path], sin, d)
                st.inc('execs')
                judge(st, {'kind': 'special', 'prog': text if len(text) < 600 else text[:100] + '…[%d chars]' % len(text),
                           'stdin_hex': sin.hex(), 'cmd': 'run -O%d' % lv}, rc, out, err, exp)
        rc, out, err = run_bin(['check', '--color', 'never', path], b'', d)
        st.inc('execs')
        judge(st, {'kind': 'special', 'prog': text[:100], 'stdin_hex': '', 'cmd': 'check'}, rc, out, err, 'ok')
        # the same with colours switched on (and left to the tool: `auto`)
        for colour in ('always', 'auto'):
            for args, sin, exp in ((['run', '-O0'], b'ab\n', predict(text, b'ab\n')), (['run', '-O2'], b'', predict(text, b'')),
                                   (['check'], b'', 'ok'), (['--verbose', 'check'], b'', 'ok'),
                                   (['--verbose', 'run', '-O1'], b'', predict(text, b''))):
                rc, out, err = run_bin(args + ['--color', colour, path], sin, d)
                st.inc('execs')
                judge(st, {'kind': 'special', 'prog': text if len(text) < 600 else text[:100] + '…[%d chars]' % len(text),
                           'stdin_hex': sin.hex(), 'cmd': ' '.join(args) + ' --color ' + colour}, rc, out, strip_sgr(err), exp)
        st.inc('contents')
    shutil.rmtree(d, ignore_errors=True)
    return st


def bad_stdins(tier):
    """an undecodable byte sequence after k characters of valid text of each UTF-8 length, k across 16/32/64 bytes; on the
    first line and on a later one"""
    ks = list(range(1, 24)) + [31, 32, 33, 63, 64, 65] + ([] if tier == 'quick' else [127, 128, 129, 255, 256, 257, 8191, 8192, 8193])
    out = []
    for ch in ('a', '\u00e9', '\uac00', '\U0001F600'):
        for k in ks:
            for bad in (b'\xff', b'\xea\xb0', b'\xc0\xaf'):
                good = (ch * k).encode('utf-8')
                out.append(good + bad + b'\n')
                if k in (5, 6, 16, 17, 22, 33, 65):
                    out.append(b'ok\n' + good + bad)
                    out.append(good + bad + b'z\nmore\n')
    return out


def stdin_task(stdins):
    from .eng_unicopy import CAT
    st = Stats()
    d = os.path.join(WORK, 'cli-in-%d' % os.getpid())
    os.makedirs(d, exist_ok=True)
    for k, text in enumerate(('흑 항', '흑 항... 흑... 항.', CAT)):
        path = os.path.join(d, 'r%d.hyeong' % k)
        with open(path, 'w', encoding='utf-8') as f:
            f.write(text)
        for sin in stdins:
            if st.n.get('hangs', 0) >= 3 or hang_storm():
                hang_storm(raise_it=st.n.get('hangs', 0) >= 3)
                st.inc('skipped_after_hangs')
                continue
            exp = predict(text, sin)
            for lv, chunk in ((0, None), (1, None), (2, None), (0, 1), (2, 3)):
                rc, out, err = run_bin(['run', '-O%d' % lv, '--color', 'never', path], sin, d, chunk=chunk)
                st.inc('execs')
                judge(st, {'kind': 'stdin', 'prog': text, 'chunk': chunk, 'stdin_hex': sin.hex() if len(sin) < 400 else sin[:20].hex() + '..[%d bytes]..' % len(sin) + sin[-8:].hex(),
                           'cmd': 'run -O%d' % lv + (' (stdin %d byte(s) per read)' % chunk if chunk else '')}, rc, out, err, exp)
    shutil.rmtree(d, ignore_errors=True)
    return st


def _task(t):
    if t[0] == 'stdin':
        return stdin_task(t[1])
    if t[0] == 'content':
        return content_task(t[1], t[2])
    if t[0] == 'names':
        return names_task()
    return special_task(t[1])


def run_c13(tier):
    st = Stats()
    n = 3 if tier == 'quick' else 4
    contents = [b''.join(t) for k in range(0, n + 1) for t in itertools.product(FRAGS, repeat=k)]
    # invalid bytes far into a long file (after one / several read buffers)
    for size in (8191, 65537):
        contents.append(b'\xed\x98\x95. ' * (size // 5) + b'x' * (size % 5) + b'\xff' + b' \xed\x98\x95.')
        contents.append(b'\xed\x98\x95. ' * (size // 5) + b'x' * (size % 5) + b'\xed\x98')
    contents = list(dict.fromkeys(contents))
    tasks = [('names',)]
    sp = special_programs()
    for i in range(0, len(sp), 6):
        tasks.append(('special', sp[i:i + 6]))
    bs = bad_stdins(tier)
    for i in range(0, len(bs), 25):
        tasks.append(('stdin', bs[i:i + 25]))
    step = 100 if tier == 'quick' else 1000
    for i in range(0, len(contents), step):
        tasks.append(('content', contents[i:i + step], i))
    collect(st, pmap(_task, [(t,) for t in tasks]))
    cov = {
        'states': st.n.get('contents', 0),
        'transitions': st.n.get('execs', 0),
        'traces_validated_against_impl': st.n.get('execs', 0),
        'exhaustive': True,
        'rule': 'trace = one invocation of the real binary (`run -O0/-O1/-O2`, `check`) on a file content x stdin bytes x file '
                'name; oracle: exit status 0/1 only, no signal, no panic text, and the ending predicted by the reference for '
                'valid programs (status 0, requested status, or status 1 with an [error] diagnostic)',
        'scope': {'fragments': [f.hex() for f in FRAGS], 'max_fragments': n, 'contents': len(contents),
                  'stdin_variants_for_reading_programs': [s.hex() if len(s) < 50 else '64KiB line' for s in STDINS],
                  'special_programs': len(sp), 'undecodable_stdin_ladder': len(bs), 'file_name_cases': 38, 'step_budget': BUDGET},
        'distinct_outcomes': sorted(st.sets.get('outcome', ())),
        'samples': [{'content_hex': (FRAGS[2] + FRAGS[1] + FRAGS[9]).hex(), 'cmd': 'run -O2'},
                    {'name': 'd.hyeong (a directory)', 'cmd': 'check'}, {'prog': 'write 0xD800 to stderr after a read', 'cmd': 'run -O1'}],
    }
    return finish(cov, st)


def replay(case):
    st = Stats()
    if case['kind'] == 'content':
        data = bytes.fromhex(case['content_hex'])
        st = content_task([data], 'replay')
    elif case['kind'] == 'name':
        st = names_task()
    elif case['kind'] == 'stdin':
        if '..[' in case['stdin_hex']:
            return 'see: standard input shortened in the record', ''
        st = stdin_task([bytes.fromhex(case['stdin_hex'])])
    else:
        if '…[' in case['prog']:
            return 'see: program shortened in the record', ''
        st = special_task([case['prog']])
    if st.violations:
        return st.violations[0].expected, st.violations[0].observed
    return 'fine', 'fine'


RUNNERS = {'C13': run_c13}
