"""Engine `compile`: emitted Rust source is accepted by rustc and behaves like level-0 interpretation (C03)."""
import itertools
import os
import shutil
import subprocess

from . import refparse as P
from .common import NUMLIB, WORK, MachineryError, Stats, Violation, collect, finish, hx, pmap, shim, child_setup
from .eng_debug import push
from .eng_optdiff import G16, RunObs, big, bodies, labelflow_family, loop_program, prefix_compatible, push_value

B = 800
BATCH = 150          # programs per crate (x3 levels = modules)
LOOP_TIMEOUT = 0.06


# ------------------------------------------------------------------ program families

def fam_templates():
    out = []
    for kind in range(6):
        for syl in (1, 2):
            for d in (0, 1, 2, 3, 4):
                c = P.spell(kind, syl, d)
                for setup in ('', '형.. 형... ', '형.. 형... 형..... 흑.... 형.. '):
                    for obs in ('', ' 항. 항.', ' 흑... 항. 항.'):
                        out.append(setup + c + obs)
    return out


def fam_areas(max_ops):
    out = []
    slots = [None, '♥', '♡']
    for n in range(0, max_ops + 1):
        for pat in itertools.product('?!', repeat=n):
            for sl in itertools.product(slots, repeat=n + 1):
                toks = ''
                for i in range(n + 1):
                    toks += sl[i] or ''
                    if i < n:
                        toks += pat[i]
                vals = (2, 3, 4)
                setups = ['']
                if n >= 1:
                    setups += ['%s ' % push(x) for x in vals]
                if n >= 2:
                    setups += ['%s %s ' % (push(a), push(x)) for a in vals for x in vals]
                for s in setups:
                    for pre in ('', '형...♥ '):
                        out.append(pre + s + '항...' + toks + ' 형. 항.')
    return out


def fam_areas3():
    """three operators: every operator pattern, hearts in all slots, each of the 27 value triples"""
    out = []
    for pat in itertools.product('?!', repeat=3):
        toks = '♥' + pat[0] + '💕' + pat[1] + '♡' + pat[2] + '💖'
        for a in (2, 3, 4):
            for b in (2, 3, 4):
                for x in (2, 3, 4):
                    out.append('형...💖 %s %s %s 항...%s 형. 항.' % (push(a), push(b), push(x), toks))
    return out


def dispatch_program(N):
    """N area-carrying commands (N blocks in the emitted dispatch), the last one jumps back into the middle once"""
    return ' '.join('형' + '.' * i + '♥ 흣.' for i in range(1, N + 1))


def fam_dispatch():
    out = []
    for N in range(1, 41):
        out.append(' '.join('형' + '.' * i + '♥ 흣.' for i in range(1, N + 1)))
    for N in (5, 17, 40):
        base = ' '.join('형' + '.' * i + '♥ 흣.' for i in range(1, N + 1))
        for i in sorted({1, 2, N // 2, N - 1, N}):
            out.append(base + ' 형' + '.' * i + '♥')                      # jump into block i (loops: compared by prefix)
            out.append(base + ' 형♡ 형' + '.' * i + '♥')                 # and come back by ♡
    return out


GADGETS = [
    ('fraction', '형.. 흡...'), ('negative', '형... 흣...'), ('nan-above-bottom', '형. 형 흡...'),
    ('stack0-selected', '형.. 흑'), ('stack0-filled', '형.. 형... 하앙'), ('selected-4', '형.. 흑....'),
    ('renumbered', '형.. 흑....... 형... 흑....'), ('label-offset', '형 형 형.♥'),
    ('pending-return', '형 형... 항...♥ 항...♥!'), ('ends-in-area', '형.. 흑...♥'), ('ends-in-area-0', '흑♥'),
    ('labels-desc', '형 형 형..💝 형.♥'), ('labels-asc', '형 형 형.♥ 형..💝 형 형...💕'),
    ('printed', '%s 항. %s 항..' % (push(65), push(66))), ('big-values', '%s %s 핫...' % (big(300, 300), big(257, 255))),
]
TRIGGERS = [('read', '흑 항... 흑...'), ('exit', '형.... 흑. 항'), ('loop', loop_program(120)), ('select0', '흑'),
            ('select2', '형.... 흑..')]
R8 = ['항.', '항.♡', '형.♥', '하앙.', '흑...', '형', '항...♥!', '흣.', '형..💝']


def fam_resume(maxres):
    out = []
    for _, g in GADGETS:
        for _, t in TRIGGERS:
            for n in range(0, maxres + 1):
                for r in itertools.product(R8, repeat=n):
                    out.append(' '.join([g, t] + list(r)))
    return out


def fam_highstack():
    """values left by the pre-executed prefix on selected stacks above 3, used again by the residual program"""
    out = []
    gadgets = ['형.. 흑....', '형.. 흑....... 형... 흑....', '형.. 흑.... 형... 흑.......', '형.. 형... 흑.... 형. 흑..... 형....']
    residuals = ['흑.... 항. 항.', '흑....... 항. 항.', '흑.... 항. 흑....... 항.', '흑..... 항. 흑.... 항. 항.', '흑.... 흐읏. 항.']
    for g in gadgets:
        for _, t in TRIGGERS:
            for r in residuals:
                out.append(' '.join([g, t, r]))
    return out


def fam_chars():
    out = []
    cps = list(range(0, 128)) + [0xE9, 0x301, 0x1F600, 0x7FF, 0xFFFF, 0x10FFFF]
    cps += [(1 << 32) + 65, (1 << 32) + 0xD800, 1 << 33, (1 << 64) + 66, 0xD800, 0xDFFF, 0x110000]
    special = set(map(ord, '"\\{}%\n\r\t\0 \'$#`')) | {0x1B, 0x7F}
    for cp in cps:
        p = push_value(cp)
        for sink in ('.', '..'):
            if sink == '..' and cp < 128 and cp not in special and tier_quick[0]:
                continue        # stderr goes through the same emitted formatting; the full cross product is in the thorough tier
            out.append('%s 항%s 흑 항... 흑... 항.' % (p, sink))
    return out


tier_quick = [True]


def fam_prestate_values():
    """integers at the machine-width boundaries (and thirds of them) sitting on a stack when pre-execution stops:
    the emitted program has to restore them exactly"""
    out = []
    ns = [(1 << 31) - 1, 1 << 31, (1 << 32) - 1, 1 << 32, (1 << 53) + 1, (1 << 63) - 1, 1 << 63, (1 << 63) + 1, 3 ** 40,
          (1 << 64) - 1, 1 << 64, (1 << 64) + 1, (1 << 127) + 1, 1 << 128]
    for n in ns:
        p = push_value(n)
        out.append('%s 흑 항... 흑... 항. 흣. 항. 흣.' % p)                         # n restored on two stacks, printed via -n
        out.append('%s 흣... 흑 항... 흑... 항. 항. 항. 항.' % p)                    # -n
        out.append('%s 형... 흡... 하아앗... 흣... 흑 항... 흑... 항. 항. 항.' % p)   # -n/9
    return out


def fam_bigindex():
    d300, d200, d17 = '.' * 300, '.' * 200, '.' * 17
    return ['형.. 흑%s 형... 항%s 흑%s 항. 흑%s 항. 항.' % (d300, d200, d200, d300),
            '형.. 흑%s 형... 흑%s 항. 흑%s 항.' % (d17, d300, d17),
            '형.. 항%s 형... 항%s 흑%s 항. 흑%s 항. 흑... 항.' % (d300, d17, d17, d300),
            '흑 항... 흑... 형.. 흑%s 형... 항%s 흑%s 항. 흑%s 항.' % (d300, d200, d200, d300)]


def fam_labels():
    out = []
    labs = [(c, h) for c in (1, 2, 3) for h in ('♥', '💕', '💛', '💝', '❤')]
    for (c1, h1) in labs:
        for (c2, h2) in labs:
            out.append('형%s%s 항. 형%s%s 형.... 항.' % ('.' * c1, h1, '.' * c2, h2))
    return out


def fam_redundant_hearts():
    """slots holding two different hearts: only the first one counts, for the interpreter and for the executable"""
    out = []
    for h1, h2 in (('♥', '💕'), ('💕', '♥'), ('♥', '♡'), ('💛', '💝')):
        for area in (h1 + h2, '?' + h1 + h2, h1 + h2 + '?', '!' + h1 + h2, h1 + h2 + '!' + h2 + h1):
            for ref in (h1, h2):
                out.append('형..%s 항. 형..%s 형.... 항.' % (area, ref))
                out.append('형.. 형..%s 항. 형..%s 형.... 항.' % (ref, area))
    return out


def fam_scale(tier):
    """size ladders (hv/scale.py): deep stacks, many copies, many labels, many stacks, long straight programs"""
    from . import scale
    if tier == 'quick':
        return [scale.deep_program(1, 17, 17), scale.deep_program(3, 65, 65), scale.deep_program(2, 16, 18),
                scale.deep_program(4, 33, 33), '%s %s %s' % (scale.P65, P.spell(5, 65, 4), ' '.join(['항.'] * 66)),
                scale.many_labels(17, 7), scale.many_labels(65, 5, same_heart=True), scale.straight(256),
                scale.loop_program(100)] + [dispatch_program(n) for n in (64, 65)]
    return ([t for t in scale.scale_programs('quick') if len(P.parse(t)) <= 530] + [scale.loop_program(100)]
            + [dispatch_program(n) for n in (63, 64, 65, 127, 128, 129, 255, 256, 257)])


def fam_prestate_size():
    """how much the pre-executed prefix leaves behind: n values on one stack, n characters already printed"""
    out = []
    for n in (17, 65, 257, 300):
        pushes = ' '.join('형' + '.' * (1 + i % 3) for i in range(n))
        out.append('%s 흑 항... 흑... 항. %s' % (pushes, ' '.join(['흣.'] * 3 + ['항.'] * 5)))
    for n in (257, 390):
        out.append('%s %s 흑 항... 흑... 항. 항.' % (push(65), ' '.join(['흑... 항.'] * n)))
    # thousands of characters written by one pre-executed command (the emitted program carries them as text)
    wide = '흐' + '으' * 4998 + '윽'
    out.append('%s %s. 형' % (big(5, 13), wide))
    out.append('%s %s.. 형' % (big(5, 13), wide))
    return out


def fam_general(n, observers):
    out = []
    for b in bodies(G16, n):
        for o in observers:
            out.append((b + ' ' + o).strip())
    return out


# ------------------------------------------------------------------ emit / compile / run

def emit(sh, text, level):
    r = sh.child('emit', hx(text), level)
    ex = r.extra.decode('utf-8', 'replace')
    if r.status != 'exit=0' or not (ex.startswith('SRC\n') or ex.startswith('OPTERR')):
        return ('crash', '%s %s' % (r.status, r.err.decode('utf-8', 'replace')[-300:]))
    if ex.startswith('OPTERR'):
        return ('opterr', ex)
    return ('src', ex[4:])


def rustc(src_path, out_path):
    p = subprocess.run(['rustc', '--edition', '2018', '-C', 'opt-level=0', '-C', 'debuginfo=0', '-C', 'codegen-units=4',
                        '--extern', 'hyeong=' + NUMLIB, '-o', out_path, src_path],
                       stdout=subprocess.PIPE, stderr=subprocess.STDOUT)
    return p.returncode, p.stdout.decode('utf-8', 'replace')


def run_exe(args, stdin, timeout):
    try:
        p = subprocess.run(preexec_fn=child_setup, args=args, input=stdin, stdout=subprocess.PIPE, stderr=subprocess.PIPE, timeout=timeout)
        return p.returncode, p.stdout, p.stderr
    except subprocess.TimeoutExpired as e:
        return 'timeout', e.stdout or b'', e.stderr or b''


def compare_compiled(o0, rc, out, err):
    """o0: RunObs of the level-0 interpretation; returns None or (klass, expected, observed)"""
    obs = 'status=%r out=%r err=%r' % (rc, out[:300], err[:300])
    if o0.kind == 'end':
        want = int(o0.status[5:])
        if rc != want or out != o0.out or err != o0.err:
            return ('differs', o0.text(), obs)
    elif o0.kind == 'error':
        # abnormal stop; stdout the same, stderr the same up to the diagnostic
        if rc in (0, 'timeout') or out != o0.out or not err.startswith(o0.err):
            return ('error-differs', o0.text(), obs)
    elif o0.kind == 'budget':
        if not (prefix_compatible(out, o0.out) and prefix_compatible(err, o0.err)):
            return ('prefix', o0.text(), obs)
        if rc != 'timeout' and len(out) < len(o0.out):
            return ('prefix-ended-early', o0.text(), obs)
    else:
        return ('level0-crash', 'level 0 runs', o0.text())
    return None


def batch_task(family, texts, stdin_text):
    st = Stats()
    sh = shim()
    d = os.path.join(WORK, 'cc-%d' % os.getpid())
    shutil.rmtree(d, ignore_errors=True)
    os.makedirs(d)
    stdin = stdin_text.encode('utf-8')
    path = os.path.join(d, 'p.hyeong')
    # level-0 interpretation of every program
    interp = []
    for t in texts:
        with open(path, 'w', encoding='utf-8') as f:
            f.write(t)
        interp.append(RunObs(sh.run(path, 0, B, stdin)))
    mods = []
    items = []   # (k, level, name, src)
    for k, t in enumerate(texts):
        if st.n.get('emit_timeouts', 0) >= 3:
            st.inc('skipped_after_emit_timeouts', len(texts) - k)
            break           # the compiler hangs (20 s per program): three examples are enough, the rest of this batch is left out
        for lv in (0, 1, 2):
            kind, payload = emit(sh, t, lv)
            st.inc('emitted')
            case = {'kind': 'compile', 'prog': t, 'level': lv, 'stdin': stdin_text}
            if kind == 'crash':
                if payload.startswith('sig=14'):          # the alarm of the child: no answer within 20 s
                    st.inc('emit_timeouts')
                st.violate(Violation('C03', 'compile', family + ':emit-crash', case, 'source text', payload))
                continue
            if kind == 'opterr':
                if interp[k].kind != 'error':
                    st.violate(Violation('C03', 'compile', family + ':opterr', case, interp[k].text(), payload))
                else:
                    st.inc('opterr_consistent')
                continue
            name = 'p%d_%d' % (k, lv)
            items.append((k, lv, name, payload))
            mods.append('pub mod %s {\n%s\n}\n' % (name, payload.replace('fn main()', 'pub fn main()', 1)))
    main = ('fn main() { let a = std::env::args().nth(1).unwrap(); match a.as_str() {'
            + ''.join('"%s" => %s::main(),' % (n, n) for _, _, n, _ in items) + ' _ => std::process::exit(99) } }\n')
    src_path = os.path.join(d, 'batch.rs')
    exe = os.path.join(d, 'batch')
    with open(src_path, 'w', encoding='utf-8') as f:
        f.write('#![allow(warnings)]\n' + ''.join(mods) + main)
    rc, msg = rustc(src_path, exe)
    st.inc('rustc_batches')
    standalone = {}
    if rc != 0:
        # find the offenders on the stand-alone, unmodified source
        st.inc('batch_rejected')
        for k, lv, name, src in items:
            sp = os.path.join(d, name + '.rs')
            with open(sp, 'w', encoding='utf-8') as f:
                f.write(src)
            rc1, msg1 = rustc(sp, os.path.join(d, name))
            st.inc('rustc_standalone')
            if rc1 != 0:
                st.violate(Violation('C03', 'compile', family + ':rustc-rejects',
                                     {'kind': 'compile', 'prog': texts[k], 'level': lv, 'stdin': stdin_text},
                                     'rustc accepts the emitted source', msg1[-600:]))
                standalone[name] = None
            else:
                standalone[name] = os.path.join(d, name)
        if all(v is not None for v in standalone.values()):
            raise MachineryError('batch rejected but every module compiles alone: %s' % msg[-400:])
    for k, lv, name, src in items:
        if rc == 0:
            args = [exe, name]
        elif standalone.get(name):
            args = [standalone[name]]
        else:
            continue
        o0 = interp[k]
        to = LOOP_TIMEOUT if o0.kind == 'budget' else (5 if st.n.get('unexpected_timeouts', 0) < 3 else 0.5)
        r, out, err = run_exe(args, stdin, to)
        if len(st.samples) < 3 and len(texts[k]) < 200:
            st.sample({'prog': texts[k], 'level': lv, 'interpreted': '%s %s' % (o0.kind, o0.status), 'stdout': out[:40].decode('utf-8', 'replace')})
        if r == 'timeout' and o0.kind != 'budget':
            st.inc('unexpected_timeouts')
        st.inc('runs')
        st.add('kinds', o0.kind + ':' + o0.status)
        res = compare_compiled(o0, r, out, err)
        if res is not None and rc == 0:
            # re-establish on the stand-alone, unmodified source before reporting
            sp = os.path.join(d, name + '.rs')
            with open(sp, 'w', encoding='utf-8') as f:
                f.write(src)
            rc1, msg1 = rustc(sp, os.path.join(d, name))
            st.inc('rustc_standalone')
            if rc1 != 0:
                res = ('rustc-rejects-standalone', 'rustc accepts', msg1[-400:])
            else:
                r, out, err = run_exe([os.path.join(d, name)], stdin, to)
                res = compare_compiled(o0, r, out, err)
                if res is None and (o0.kind == 'budget' or r == 'timeout'):
                    # a program that keeps running is compared by the prefix it manages to write within the time limit:
                    # give the stand-alone executable more time before concluding that it agrees
                    for to2 in (0.5, 3):
                        r, out, err = run_exe([os.path.join(d, name)], stdin, to2)
                        res = compare_compiled(o0, r, out, err)
                        if res is not None:
                            break
                if res is None:
                    # only the batched form disagrees (emitted text that closes a module early, for instance): the
                    # stand-alone executable is what the property talks about - counted, never a verdict
                    st.inc('disagreements_in_batched_form_only')
                    if len(st.samples) < 6:
                        st.sample({'batched_form_only': texts[k], 'level': lv})
        if res is not None:
            st.violate(Violation('C03', 'compile', '%s:L%d:%s' % (family, lv, res[0]),
                                 {'kind': 'compile', 'prog': texts[k], 'level': lv, 'stdin': stdin_text}, res[1], res[2]))
    st.inc('programs', len(texts))
    shutil.rmtree(d, ignore_errors=True)
    return st


def standalone_task(family, texts, stdin_text):
    """the emitted text, unmodified, one rustc run per program and level"""
    st = Stats()
    sh = shim()
    d = os.path.join(WORK, 'cs-%d' % os.getpid())
    shutil.rmtree(d, ignore_errors=True)
    os.makedirs(d)
    stdin = stdin_text.encode('utf-8')
    path = os.path.join(d, 'p.hyeong')
    for t in texts:
        with open(path, 'w', encoding='utf-8') as f:
            f.write(t)
        o0 = RunObs(sh.run(path, 0, B, stdin))
        for lv in (0, 1, 2):
            case = {'kind': 'compile', 'prog': t, 'level': lv, 'stdin': stdin_text}
            kind, payload = emit(sh, t, lv)
            st.inc('emitted')
            if kind == 'crash':
                st.violate(Violation('C03', 'compile', family + ':emit-crash', case, 'source text', payload))
                continue
            if kind == 'opterr':
                if o0.kind != 'error':
                    st.violate(Violation('C03', 'compile', family + ':opterr', case, o0.text(), payload))
                continue
            sp = os.path.join(d, 's.rs')
            with open(sp, 'w', encoding='utf-8') as f:
                f.write(payload)
            rc, msg = rustc(sp, os.path.join(d, 's'))
            st.inc('rustc_standalone')
            if rc != 0:
                st.violate(Violation('C03', 'compile', family + ':rustc-rejects', case, 'rustc accepts the emitted source', msg[-600:]))
                continue
            r, out, err = run_exe([os.path.join(d, 's')], stdin, LOOP_TIMEOUT if o0.kind == 'budget' else 20)
            st.inc('runs')
            st.add('kinds', o0.kind + ':' + o0.status)
            res = compare_compiled(o0, r, out, err)
            if res is not None:
                st.violate(Violation('C03', 'compile', '%s:L%d:%s' % (family, lv, res[0]), case, res[1], res[2]))
    st.inc('programs', len(texts))
    shutil.rmtree(d, ignore_errors=True)
    return st


def _task(t):
    if t[0] == 'batch':
        return batch_task(*t[1:])
    return standalone_task(*t[1:])


def chunks(seq, n):
    for i in range(0, len(seq), n):
        yield seq[i:i + n]


def run_c03(tier):
    tier_quick[0] = tier == 'quick'
    st = Stats()
    fams = {}
    if tier == 'quick':
        fams['templates'] = fam_templates()
        fams['areas'] = fam_areas(1) + fam_areas(2)[::7] + fam_areas3()[::5]
        fams['dispatch'] = fam_dispatch()
        fams['general'] = fam_general(2, ['', '항. 항.']) + fam_general(3, [''])[::19]
        fams['resume'] = fam_resume(1) + fam_resume(2)[::14]
        fams['chars'] = fam_chars() + fam_prestate_values() + fam_prestate_size()
        fams['labels'] = fam_labels() + fam_bigindex() + fam_highstack() + fam_redundant_hearts()
        fams['labelflow'] = labelflow_family()[::20]
        fams['scale'] = fam_scale(tier)
        standalone = fam_templates()[::12] + fam_chars()[::9] + [g + ' ' + t for _, g in GADGETS for _, t in TRIGGERS][::2]
    else:
        fams['templates'] = fam_templates()
        fams['areas'] = fam_areas(2) + fam_areas3()
        fams['dispatch'] = fam_dispatch()
        fams['general'] = fam_general(3, ['', '항. 항.']) + fam_general(4, [''])[::4]
        fams['resume'] = fam_resume(2) + fam_resume(3)[::6]
        fams['chars'] = fam_chars() + fam_prestate_values() + fam_prestate_size()
        fams['labels'] = fam_labels() + fam_bigindex() + fam_highstack() + fam_redundant_hearts()
        fams['labelflow'] = labelflow_family()
        fams['scale'] = fam_scale(tier)
        standalone = fam_templates() + fam_chars() + fam_resume(1)
    tasks = []
    for c in chunks(standalone, 8):
        tasks.append(('standalone', 'standalone', c, 'ab\nc'))
    for fam, texts in fams.items():
        texts = list(dict.fromkeys(texts))
        fams[fam] = texts
        for c in chunks(texts, BATCH):
            tasks.append(('batch', fam, c, 'ab\nc'))
    collect(st, pmap(_task, [(t,) for t in tasks]))
    cov = {
        'states': st.n.get('programs', 0),
        'transitions': st.n.get('runs', 0),
        'traces_validated_against_impl': st.n.get('runs', 0),
        'exhaustive': True,
        'rule': 'trace = (program, level): optimize + build_source -> rustc (edition 2018, against the number-only build of '
                '/repo) -> executable run with piped stdin; compared with the real level-0 interpretation of the same program '
                '(stdout, stderr, ending). Batched: programs x levels wrapped as modules of one crate (only edit: fn main -> '
                'pub fn main); every rejection / disagreement is re-established on the stand-alone, unmodified source before '
                'it is reported. A sample of every family is always compiled stand-alone.',
        'scope': {'families': {k: len(v) for k, v in fams.items()}, 'standalone_programs': len(standalone),
                  'levels': [0, 1, 2], 'stdin': 'ab\\nc', 'emitted_sources': st.n.get('emitted', 0),
                  'rustc_batches': st.n.get('rustc_batches', 0), 'rustc_standalone': st.n.get('rustc_standalone', 0),
                  'optimizer_errors_consistent_with_level0_error': st.n.get('opterr_consistent', 0),
                  'interpreter_step_budget': B, 'loop_timeout_s': LOOP_TIMEOUT,
                  'disagreements_in_batched_form_only': st.n.get('disagreements_in_batched_form_only', 0)},
        'distinct_outcomes': sorted(st.sets.get('kinds', ())),
        'samples': ['흑♥ 항.', '형 형... 항...♥ 항...♥! 흑 항.♡', GADGETS[0][1] + ' ' + TRIGGERS[0][1] + ' 항.', fam_dispatch()[4]],
    }
    return finish(cov, st)


def replay(case):
    st = standalone_task('replay', [case['prog']], case['stdin'])
    for v in st.violations:
        if v.case['level'] == case['level']:
            return v.expected, v.observed
    return 'same behaviour', 'same behaviour'


RUNNERS = {'C03': run_c03}
