"""Engine `debug`: exploration of debugger command histories against R-DEBUG (C11)."""
import itertools
import os
import re

from . import refinterp as I
from . import refparse as P
from .common import WORK, Stats, Violation, collect, finish, hx, pmap, shim, strip_sgr
from .eng_optdiff import big, loop_program

RUN_BOUND = 400


def push(n):
    """a command pushing n (n = a*b with small factors)"""
    for a in range(1, 40):
        if n % a == 0 and n // a <= 80 and (a <= 12):
            best = a
    a = best
    return P.spell(0, a, n // a)


P65, P66, P67, P49 = push(65), push(66), push(67), push(49)

PROGRAMS = [
    ('empty', ''),
    ('one', '형.'),
    ('straight', '%s 항. %s 항.. %s 항. %s 항..' % (P65, P66, P67, P49)),
    ('loop5', loop_program(5)),
    ('heart-return', '형...♥ 흣. 형♡ 형.... 항...?♥ %s 항.' % P65),
    ('exit0', '%s 항. %s 흑. 항 %s 항.' % (P65, P66, P67)),
    ('exit1', '%s 항.. %s 흑.. 항 %s 항.' % (P65, P66, P67)),
    # text waiting on one stream when the exit is requested through the other
    ('exit0-after-stderr', '%s 항.. %s 항. %s 항.. %s 흑. 항 %s 항.' % (P65, P66, P67, P49, P66)),
    ('exit1-after-stdout', '%s 항. %s 항.. %s 항. %s 흑.. 항 %s 항.' % (P65, P66, P67, P49, P66)),
    ('encoding', '%s 항. %s 항. %s 항.' % (P65, big(216, 256), P66)),
    ('fractions', '형.. 흡... 형... 흣... 형. 형 흡... 하앙....'),
    ('two-stacks', '%s 흑.... 형.. 항... 흑... 항. 항..' % P65),
    ('long-straight', ' '.join(['형.'] * 11 + [P65, '항.', '형..'])),
    # line-break characters in what the program writes: CR LF, LF LF, a lone CR, a final LF - on both streams
    ('line-breaks', ' '.join('%s 항%s' % (push(c), k) for c, k in ((65, '.'), (13, '.'), (10, '.'), (66, '.'), (67, '..'), (13, '..'), (10, '..'),
                                                                   (10, '..'), (68, '..'), (13, '.'), (69, '.'), (10, '.')))),
    ('enc-after-stderr', '%s 항.. %s 항. %s 항. %s 항.' % (P65, P66, big(216, 256), P67)),
]

D15 = ['n', 'p', 'r', 's', 'b', 'b 0', 'b 1', 'b MID', 'b LAST', 'b LEN', 'b LEN1', 'b x', 'h', 'zzz', '', 'exit']
D7 = ['n', 'p', 'r', 's', 'b', 'b 1', 'b LEN']
D8 = D7 + ['b MID']
D18 = D15 + ['next', 'previous', 'state']


def concrete(cmd, n):
    return (cmd.replace('MID', str(n // 2)).replace('LAST', str(max(n - 1, 0))).replace('LEN1', str(n + 1))
            .replace('LEN', str(n)))


# ------------------------------------------------------------------ reference debugger

def mkey(m):
    k = getattr(m, '_k', None)
    if k is None:
        k = m._k = hash(m.key())
    return k


class Session(object):
    """R-DEBUG: produces, command by command, the expected reply events"""

    def __init__(self, prog, run_bound=None):
        self.prog = prog
        self.run_bound = run_bound or RUN_BOUND
        m = I.Machine(prog, '')
        self.hist = [(m, 0)]
        self.bps = {0}
        self.ghost = set()    # breakpoints >= len the implementation chose to accept (not prescribed)
        self.ended = None     # None | exit status
        self.cut = False
        self.diag = False     # a diagnostic is expected on the real stderr (encoding error)
        if len(prog) == 0:
            self.ended = 0

    def key(self):
        return (tuple((mkey(m), i) for m, i in self.hist), frozenset(self.bps), self.ended)

    def clone(self):
        s = Session.__new__(Session)
        s.prog = self.prog
        s.run_bound = self.run_bound
        s.hist = list(self.hist)
        s.bps = set(self.bps)
        s.ghost = set(self.ghost)
        s.ended = self.ended
        s.cut = self.cut
        s.diag = self.diag
        return s

    def _step(self, events_out):
        """one command on a clone of the newest snapshot; returns False when the session ended"""
        m, idx = self.hist[-1]
        m2 = m.clone()
        o0, e0 = len(m2.out), len(m2.err)
        try:
            nxt = m2.step(idx)
        except I.Exit as e:
            events_out.append((''.join(m2.out[o0:]), ''.join(m2.err[e0:])))
            self.ended = e.code
            return False
        except I.EncodingError:
            events_out.append((''.join(m2.out[o0:]), ''.join(m2.err[e0:])))
            self.ended = 1
            self.diag = True
            return False
        events_out.append((''.join(m2.out[o0:]), ''.join(m2.err[e0:])))
        self.hist.append((m2, nxt))
        return True

    @staticmethod
    def _flush(chunks):
        ev = []
        o = ''.join(c[0] for c in chunks)
        e = ''.join(c[1] for c in chunks)
        if o:
            ev.append(('out', o))
        if e:
            ev.append(('err', e))
        return ev

    def command(self, line):
        """returns the list of expected reply events (session may end: self.ended)"""
        words = line.strip().split(' ')
        w = words[0]
        n = len(self.prog)
        m, idx = self.hist[-1]
        if w in ('n', 'next'):
            c = self.prog[idx]
            ev = [('cmd', idx, c.line, c.col, ''.join(c.raw))]
            chunks = []
            alive = self._step(chunks)
            ev += self._flush(chunks)
            if alive and self.hist[-1][1] >= n:
                self.ended = 0
            return ev
        if w in ('p', 'previous'):
            if len(self.hist) > 1:
                self.hist.pop()
                return [('log',)]
            return [('error',)]
        if w in ('r', 'run'):
            chunks = []
            alive = self._step(chunks)
            steps = 1
            while alive and self.hist[-1][1] < n and self.hist[-1][1] not in self.bps:
                if steps >= self.run_bound:
                    self.cut = True
                    return []
                alive = self._step(chunks)
                steps += 1
            ev = self._flush(chunks)
            if alive and self.hist[-1][1] >= n:
                self.ended = 0
            return ev
        if w in ('s', 'state'):
            return [('state', m.snapshot())]
        if w in ('b', 'break'):
            if len(words) < 2:
                return [('log',)] + [('cmd', i, self.prog[i].line, self.prog[i].col, ''.join(self.prog[i].raw))
                                        for i in sorted(self.bps)]
            try:
                if not re.match(r'^\+?[0-9]+$', words[1]):
                    raise ValueError
                k = int(words[1])
                if k >= 1 << 64:
                    raise ValueError
            except ValueError:
                return [('error',)]
            if k >= n:
                return [('range', k)]
            if k in self.bps:
                self.bps.discard(k)
                return [('log',)]
            self.bps.add(k)
            return [('log',)]
        if w in ('h', 'help'):
            return [('help',)]
        if w == 'exit':
            self.ended = 0
            return []
        if w == '':
            return []
        return [('error',)]


# ------------------------------------------------------------------ transcript parsing

CMD_RE = re.compile(r'^ *(\d+) *\| *(.*?):(\d+):(\d+) +(\S.*?) *$')
HELP_PREFIXES = ('[b] break', 'exit  ', '[h] help', '[n] next', '[s] state', '[p] previous', '[r] run')


def parse_transcript(text):
    """-> list of replies; reply k = events printed after the k-th prompt (reply 0 = before the first prompt)"""
    replies = [[]]
    pos = 0
    n = len(text)
    pending_state = None

    def close_state():
        nonlocal pending_state
        if pending_state is not None:
            cur, stacks = pending_state
            replies[-1].append(('state', (cur, tuple(sorted(s for s in stacks if s[1])))))
            pending_state = None
    while pos < n:
        if text.startswith('> ', pos):
            close_state()
            replies.append([])
            pos += 2
            continue
        j = text.find('\n', pos)
        if j < 0:
            line, pos = text[pos:], n
        else:
            line, pos = text[pos:j], j + 1
        if pending_state is not None and line.startswith('stack '):
            head, _, body = line.partition(': ')
            inner = body.strip()[1:-1]
            pending_state[1].append((int(head[6:]), tuple(inner.split(', ')) if inner else ()))
            continue
        close_state()
        if len(replies) == 1 and not line.startswith('[stdout] ') and not line.startswith('[stderr] '):
            continue          # banner / log lines before the first prompt: wording not prescribed
        if line.startswith('current stack: '):
            pending_state = (int(line[len('current stack: '):]), [])
            continue
        m = CMD_RE.match(line)
        if m:
            replies[-1].append(('cmd', int(m.group(1)), int(m.group(3)), int(m.group(4)), m.group(5)))
        elif line.startswith('[stdout] '):
            replies[-1].append(('out', line[9:]))
        elif line.startswith('[stderr] '):
            replies[-1].append(('err', line[9:]))
        elif line.startswith('==> '):
            replies[-1].append(('log',))
        elif line.startswith('[error] '):
            replies[-1].append(('error',))
        elif replies[-1] and replies[-1][-1][0] in ('out', 'err'):
            # what the program wrote contained a line break: the text goes on in this line
            kind, payload = replies[-1][-1]
            replies[-1][-1] = (kind, payload + '\n' + line)
        else:
            replies[-1].append(('text',))
    close_state()
    return replies


def cmd_event_matches(exp, got):
    """('cmd', idx, line, col, raw): raw compared like C04 (first char, subsequence not checked here: equal or same parse)"""
    if got[0] != 'cmd' or exp[1:4] != got[1:4]:
        return False
    if exp[4] == got[4]:
        return True
    a, b = P.parse(exp[4]), P.parse(got[4])
    return len(a) == 1 and len(b) == 1 and a[0].key() == b[0].key()


def events_match(exp, got):
    if len(exp) != len(got):
        return False
    for e, g in zip(exp, got):
        if e[0] == 'cmd':
            if not cmd_event_matches(e, g):
                return False
        elif e != g:
            return False
    return True


def check_session(prog, script, status, stdout, stderr, run_bound=None):
    """Replays `script` (list of command lines) on the reference and compares with the real transcript.
    Returns None | (klass, expected, observed)."""
    replies = parse_transcript(stdout)
    s = Session(prog, run_bound)
    if replies[0]:
        return ('debug:preamble', '[]', str(replies[0]))
    k = 0   # prompts consumed
    for line in script:
        if s.ended is not None:
            break
        k += 1
        if k >= len(replies):
            return ('debug:short', 'prompt #%d for %r' % (k, line), 'transcript ends after %d prompts; status %s; stderr %r'
                    % (len(replies) - 1, status, stderr[-200:]))
        exp = s.command(line)
        if s.cut:
            return None
        got = replies[k]
        if exp and exp[0][0] == 'range':
            # breakpoint number >= program length: rejecting it or accepting it are both allowed,
            # it must only never crash (and a later listing shows the real commands only)
            kk = exp[0][1]
            if got == [('error',)]:
                continue
            if got == [('log',)]:
                if kk in s.ghost:
                    s.ghost.discard(kk)
                else:
                    s.ghost.add(kk)
                continue
            return ('debug:break-range', "error reply or an acknowledgement for %d" % kk, str(got))
        if exp == [('help',)]:
            if got and all(g == ('text',) for g in got):
                continue
            return ('debug:reply:help', 'one or more lines of help text', str(got))
        if exp and exp[0] == ('log',) and len(exp) > 1 and s.ghost:
            got = [g for g in got if not (g[0] == 'cmd' and g[1] in s.ghost)]
        if not events_match(exp, got):
            return ('debug:reply:' + (line.split(' ')[0] or 'blank'), 'after %r: %s' % (script[:k], exp), str(got))
    if s.ended is None:
        # script exhausted: one more prompt, then end of input -> exit 0
        k += 1
        if len(replies) - 1 != k or replies[k]:
            return ('debug:eof', '%d prompts, the last one unanswered' % k, '%d prompts, tail %s; status %s stderr %r' % (
                len(replies) - 1, replies[-1], status, stderr[-200:]))
        exp_status = 0
    else:
        if len(replies) - 1 != k:
            return ('debug:after-end', 'session over after %d prompts' % k, '%d prompts' % (len(replies) - 1))
        exp_status = s.ended
    if status != 'exit=%d' % exp_status:
        return ('debug:status', 'exit=%d' % exp_status, '%s stderr %r' % (status, stderr[-300:]))
    if 'panicked' in stderr:
        return ('debug:panic', 'no panic', stderr[-300:])
    if s.diag and '[error]' not in stderr:
        return ('debug:diagnostic', 'a diagnostic on stderr', repr(stderr[-200:]))
    if not s.diag and stderr.strip():
        return ('debug:stderr', 'empty stderr', repr(stderr[-300:]))
    return None


def effective(prog, script):
    """the part of the script the session actually consumes (None if the reference cuts it)"""
    s = Session(prog)
    used = []
    for line in script:
        if s.ended is not None:
            break
        used.append(line)
        s.command(line)
        if s.cut:
            return None
    return tuple(used)


# ------------------------------------------------------------------ tasks

def sessions_task(name, text, scripts):
    st = Stats()
    sh = shim()
    prog = P.parse(text)
    path = os.path.join(WORK, 'dbg-%d.hyeong' % os.getpid())
    with open(path, 'w', encoding='utf-8') as f:
        f.write(text)
    for script in scripts:
        data = ''.join(l + '\n' for l in script)
        if name.endswith('+nofinal') and script and script[-1] != '':
            # no line break after the last command
            r = sh.child('debug', hx(path), hx('\n'.join(script)), 20)
            st.inc('sessions_without_final_line_break')
        elif name.endswith('+long'):
            # the long command words
            longw = {'n': 'next', 'p': 'previous', 'r': 'run', 's': 'state', 'b': 'break', 'h': 'help'}
            data = ''.join(' '.join([longw.get(l.split(' ')[0], l.split(' ')[0])] + l.split(' ')[1:]) + '\n' for l in script)
            r = sh.child('debug', hx(path), hx(data), 20)
            st.inc('sessions_with_long_words')
        elif name.endswith('+color'):
            r = sh.child('debug', hx(path), hx(data), 20, 'always')
            r.out, r.err = strip_sgr(r.out), strip_sgr(r.err)
            st.inc('sessions_with_colour')
        else:
            r = sh.child('debug', hx(path), hx(data), 20)
        st.inc('sessions')
        st.inc('transitions', len(script))
        if len(st.samples) < 3:
            st.sample({'program': name, 'script': list(script), 'status': r.status})
        res = check_session(prog, list(script), r.status, r.out.decode('utf-8', 'replace'), r.err.decode('utf-8', 'replace'),
                            5000 if name.startswith('scale') else None)   # (names: scale-*, scale-*+color)
        if res is None and name.startswith('scale'):
            st.inc('scale_sessions_compared')
        st.add('status', r.status)
        if res is not None:
            st.violate(Violation('C11', 'debug', res[0], {'kind': 'debug', 'program': name, 'prog': text, 'script': list(script)},
                                 res[1], res[2]))
    return st


def all_paths(prog, alphabet, depth):
    """distinct effective scripts of all command sequences of length `depth` (maximal paths only)"""
    n = len(prog)
    cmds = [concrete(c, n) for c in alphabet]
    seen = set()
    cut = 0
    # DFS over the reference so that finished sessions are not extended
    stack = [((), Session(prog))]
    while stack:
        script, s = stack.pop()
        if s.ended is not None or len(script) == depth:
            seen.add(script)
            continue
        for c in cmds:
            s2 = s.clone()
            s2.command(c)
            if s2.cut:
                cut += 1
                continue
            stack.append((script + (c,), s2))
    return sorted(seen), cut


def bfs_paths(prog, alphabet, depth, max_states):
    """deduplicated BFS over reference debugger states; one script per (state, command) transition"""
    n = len(prog)
    cmds = [concrete(c, n) for c in alphabet]
    s0 = Session(prog)
    seen = {s0.key(): ()}
    frontier = [((), s0)]
    scripts = []
    transitions = 0
    d = 0
    complete_depth = 0
    capped = False
    while frontier and d < depth:
        nxt = []
        for script, s in frontier:
            if s.ended is not None:
                continue
            for c in cmds:
                s2 = s.clone()
                s2.command(c)
                if s2.cut:
                    continue
                transitions += 1
                scripts.append(script + (c,))
                k = s2.key()
                if k not in seen:
                    if len(seen) >= max_states:
                        capped = True
                        continue
                    seen[k] = script + (c,)
                    nxt.append((script + (c,), s2))
        frontier = nxt
        d += 1
        if not capped:
            complete_depth = d
    # keep only maximal scripts (a script validates all its prefixes)
    sset = set(scripts)
    prefixes = set()
    for sc in sset:
        for i in range(1, len(sc)):
            prefixes.add(sc[:i])
    maximal = sorted(sset - prefixes)
    return maximal, len(seen), transitions, complete_depth, capped


def scale_sessions(tier):
    """long histories: hundreds of steps taken back again, hundreds of breakpoints, runs of more than a thousand commands"""
    from . import scale
    q = tier == 'quick'
    out = []
    sizes = (16, 17, 64, 65, 256, 257) if q else scale.LADDER
    straight = scale.straight(640)
    for n in sizes:
        for m in (n - 1, n, n + 1):
            out.append(('scale-straight', straight, tuple(['n'] * n + ['p'] * m + ['s', 'n', 's'])))
        bs = ['b %d' % i for i in range(1, n + 1)]
        out.append(('scale-straight', straight, tuple(bs + ['b', 'r', 's'] + bs[1::2] + ['b', 'r', 's', 'r', 'r', 's'])))
        out.append(('scale-straight', straight, tuple(['b %d' % (n + 1), 'r', 's'] + ['p'] * (n // 2) + ['r', 's', 'n', 'p', 'p', 's'])))
    loop = scale.loop_program(180) + ' 항.'          # 6 K + 2 = 1082 commands executed before the last one
    last = len(P.parse(loop)) - 1
    for k in ((500, 570, 1075, 1090) if q else (255, 257, 500, 511, 512, 513, 520, 570, 600, 1023, 1024, 1025, 1075, 1081, 1082, 1090)):
        out.append(('scale-loop', loop, tuple(['b %d' % last, 'r', 's'] + ['p'] * k + ['s', 'n', 's'])))
    for k in ((130, 260) if q else (64, 65, 128, 129, 130, 256, 257, 260)):
        out.append(('scale-loop', scale.loop_program(300), tuple(['b 3'] + ['r'] * k + ['s', 'p', 's', 'r', 's'])))
    return out


def padded_sessions(tier):
    """short scripts with a block of n neutral commands (unknown word, state dump) at every position: the number of
    commands a session has seen is taken across the size ladder"""
    q = tier == 'quick'
    sizes = (16, 17, 64, 65, 256, 257) if q else (7, 8, 9, 15, 16, 17, 31, 32, 33, 63, 64, 65, 127, 128, 129, 255, 256, 257, 1024, 1025)
    bases = [('n', 'n', 'p', 's', 'n'), ('r', 'p', 's', 'r'), ('b 2', 'r', 's', 'p', 'r', 'r'), ('n', 'r', 'p', 'p', 'n', 's'),
             ('b 3', 'b 1', 'b', 'r', 'b 1', 'b', 'r', 's')]
    out = []
    for name in ('loop5', 'heart-return', 'straight', 'enc-after-stderr'):
        text = dict(PROGRAMS)[name]
        for base in bases:
            for p in range(len(base) + 1):
                for n in sizes:
                    for neutral in ('zzz', 's'):
                        out.append((name, text, tuple(base[:p]) + (neutral,) * n + tuple(base[p:])))
    return out


def _task(t):
    return sessions_task(*t)


def run_c11(tier):
    st = Stats()
    tasks = []
    info = {}
    if tier == 'quick':
        plan_all = {'*': (D15, 3), 'loop5': (D15, 4), 'encoding': (D15, 4)}
        plan_d7 = {'straight': 5, 'two-stacks': 5, 'exit1': 5, 'heart-return': 5}
        bfs_depth, bfs_states = 12, 1500
    else:
        plan_all = {'*': (D18, 4), 'straight': (D15, 5), 'loop5': (D15, 5), 'encoding': (D15, 5)}
        plan_d7 = {'loop5': 8, 'two-stacks': 7, 'exit1': 7, 'heart-return': 7, 'straight': 7}
        bfs_depth, bfs_states = 20, 12000
    nstates = 0
    ntrans = 0
    for name, text in PROGRAMS:
        prog = P.parse(text)
        scripts = set()
        alpha, depth = plan_all.get(name, plan_all['*'])
        paths, cut = all_paths(prog, alpha, depth)
        scripts.update(paths)
        info[name] = {'all_paths': {'alphabet': len(alpha), 'depth': depth, 'scripts': len(paths), 'cut_nonterminating': cut}}
        if name in plan_d7:
            paths, cut = all_paths(prog, D7, plan_d7[name])
            scripts.update(paths)
            info[name]['all_paths_D7'] = {'depth': plan_d7[name], 'scripts': len(paths)}
        maximal, ns, nt, cd, capped = bfs_paths(prog, D8, bfs_depth, bfs_states)
        scripts.update(maximal)
        nstates += ns
        ntrans += nt
        info[name]['bfs'] = {'states': ns, 'transitions': nt, 'complete_to_depth': cd, 'state_cap_hit': capped,
                             'scripts': len(maximal)}
        scripts = sorted(scripts, key=lambda s: (len(s), s))
        for i in range(0, len(scripts), 600):
            tasks.append((name, text, scripts[i:i + 600]))
    sc = scale_sessions(tier)
    for name, text, script in sc:
        tasks.append((name, text, [script]))
    info['size-ladder'] = {'sessions': len(sc), 'longest_script': max(len(s[2]) for s in sc)}
    pad = padded_sessions(tier)
    info['neutral-command-padding'] = {'sessions': len(pad)}
    bykey = {}
    for name, text, script in pad:
        bykey.setdefault((name, text), []).append(script)
    for (name, text), scripts in bykey.items():
        for i in range(0, len(scripts), 60):
            tasks.append((name, text, scripts[i:i + 60]))
    # the same sessions with `--color always` (every 4th script): colour sequences removed, the text must be the same
    base = list(tasks)
    tasks += [(t[0] + '+color', t[1], t[2][::4]) for t in base if len(t[2]) >= 4]
    tasks += [(t[0] + '+long', t[1], t[2][2::5]) for t in base if len(t[2]) >= 3]
    tasks += [(t[0] + '+nofinal', t[1], t[2][1::5]) for t in base if len(t[2]) >= 2]
    collect(st, pmap(_task, [(t,) for t in tasks]))
    cov = {
        'states': nstates,
        'transitions': ntrans + st.n.get('transitions', 0),
        'traces_validated_against_impl': st.n.get('sessions', 0),
        'exhaustive': True,
        'rule': 'state = reference debugger configuration (history of (interpreter state, index), breakpoint set); transition = '
                'one debugger command. (i) all command sequences up to the depth bound without state merging; (ii) BFS with '
                'states merged on (history, breakpoints), every transition replayed along a shortest script. Every script is '
                'run on the real `debug::run` (stdin script, EOF at the end) and the transcript compared event by event.',
        'scope': {'programs': {n: t if len(t) < 120 else t[:60] + '…' for n, t in PROGRAMS}, 'per_program': info,
                  'commands': D15, 'bfs_commands': D8,
                  'sessions_repeated_with_colour_always': st.n.get('sessions_with_colour', 0),
                  'sessions_repeated_with_long_command_words': st.n.get('sessions_with_long_words', 0),
                  'sessions_repeated_without_final_line_break': st.n.get('sessions_without_final_line_break', 0)},
        'distinct_outcomes': sorted(st.sets.get('status', ())),
        'samples': [['n', 's', 'b 3', 'b', 'r', 's', 'p', 'p'], ['b 2', 'b', 'r'], ['r', 'p', 'n', 'n']],
    }
    return finish(cov, st)


def replay(case):
    st = sessions_task(case['program'], case['prog'], [tuple(case['script'])])
    if st.violations:
        return st.violations[0].expected, st.violations[0].observed
    return 'transcripts agree', 'transcripts agree'


RUNNERS = {'C11': run_c11}
