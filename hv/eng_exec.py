"""Engine `exec`: explicit-state exploration of the interpreter in lock-step with R-INTERP (C01)."""
import glob
import itertools
import os
from fractions import Fraction

from . import refinterp as I
from . import refnum as R
from . import refparse as P
from .common import strip_log_lines, strip_sgr, REPO, WORK, Stats, Violation, hx, pmap, shim, finish, collect

A20 = ['형', '형.', '형..', '항.', '항...', '하앙...', '핫....', '흣...', '흐읏.', '흡...', '흐읍...', '흑', '흑.', '흑..',
       '흑....', '형.♥', '항...♥', '형..?♥', '항...♥!', '형.♡']
A40 = A20 + ['항..', '하앙..', '흑.....', '형...♥', '형.!♥?♡', '핫...?♡!♥', '흣.', '흡....', '혀엉..', '혀어엉....', '흐윽...',
             '흑...?', '항....♥', '형..♡', '흣...!💕', '핫.', '흐읍....♥', '형....💕', '하앗...', '항']
HORIZON = 2200
MAXSTEPS = 64


def heart_code(h):
    return 2 + P.HEARTS.index(h)


def label_id(count, heart):
    """how the public State API identifies a label: (count << 4) + heart code"""
    return (count << 4) + heart_code(heart)


def val_lit(v):
    return 'nan' if v is None else R.num_text(v)


def prestate_text(pre):
    parts = []
    if pre.get('stacks'):
        parts.append('stacks=' + ';'.join('%d:%s' % (i, ','.join(val_lit(v) for v in vs))
                                          for i, vs in sorted(pre['stacks'].items()) if vs))
    if pre.get('cur') is not None:
        parts.append('cur=%d' % pre['cur'])
    if pre.get('labels'):
        parts.append('points=' + ','.join('%d:%d' % (label_id(c, h), loc) for (c, h), loc in sorted(pre['labels'].items())))
    if pre.get('latest') is not None:
        parts.append('latest=%d' % pre['latest'])
    return ' '.join(parts)


def machine_from(prog, inp, pre):
    m = I.Machine(prog, inp)
    for i, vs in (pre.get('stacks') or {}).items():
        m.stacks[i] = list(vs)
    if pre.get('cur') is not None:
        m.cur = pre['cur']
    m.labels = dict(pre.get('labels') or {})
    m.latest = pre.get('latest')
    m.value_horizon = HORIZON
    return m


def ref_trace(prog, inp, pre, start, max_steps):
    """list of per-step observations + end kind; stops at the horizon / unspecified behaviour"""
    m = machine_from(prog, inp, pre)
    idx = start
    steps = []
    end = None
    while idx < len(prog) and len(steps) < max_steps:
        try:
            nxt = m.step(idx)
        except I.Exit as e:
            end = ('exit', e.code, m.out_text(), m.err_text())
            break
        except I.EncodingError:
            end = ('encoding', None, m.out_text(), m.err_text())
            break
        except I.Unspecified:
            end = ('cut', None, None, None)
            break
        idx = nxt
        steps.append((idx, m.snapshot(), m.out_text(), m.err_text()))
    if end is None:
        end = ('end', None, m.out_text(), m.err_text()) if idx >= len(prog) else ('budget', None, None, None)
    return steps, end, m


def case_json(text, inp, pre, start, max_steps):
    return {'kind': 'trace', 'prog': text, 'stdin': inp, 'start': start, 'max_steps': max_steps,
            'pre': {'stacks': {str(k): [val_lit(v) for v in vs] for k, vs in (pre.get('stacks') or {}).items()},
                    'cur': pre.get('cur'), 'latest': pre.get('latest'),
                    'labels': [[c, h, loc] for (c, h), loc in sorted((pre.get('labels') or {}).items())]}}


def pre_from_json(j):
    return {'stacks': {int(k): [None if v == 'nan' else R.parse_num_text(v) for v in vs] for k, vs in j['stacks'].items()},
            'cur': j['cur'], 'latest': j['latest'], 'labels': {(c, h): loc for c, h, loc in j['labels']}}


def lockstep(sh, st, text, prog, inp, pre, start, max_steps, klass):
    """runs one case on both sides; records a violation on the first divergence. Returns end kind."""
    steps, end, _ = ref_trace(prog, inp, pre, start, max_steps)
    n = len(steps)
    if end[0] == 'cut' and n == 0:
        st.inc('cut')
        return 'cut'
    ask = n if end[0] in ('cut', 'budget') else max_steps
    r = sh.child('trace', hx(text), hx(inp), hx(prestate_text(pre)), start, ask)
    st.inc('traces')
    st.inc('transitions', n)
    case = case_json(text, inp, pre, start, max_steps)
    if len(st.samples) < 3 and len(text) < 200:
        st.sample({'prog': text, 'stdin': inp, 'pre_state': case['pre'], 'steps_compared': n, 'end': end[0]})

    def bad(what, exp, obs):
        st.violate(Violation('C01', 'exec', klass + ':' + what, case, exp, obs))
        return 'violation'
    recs = r.extra.decode('utf-8', 'replace').split('\n')
    if not recs or not recs[0].startswith('N '):
        return bad('crash', 'trace', '%s %s' % (r.status, r.err.decode('utf-8', 'replace')[-300:]))
    if int(recs[0][2:]) != len(prog):
        return bad('parse', '%d commands' % len(prog), recs[0])
    k = 0
    for rec in recs[1:]:
        if not rec:
            continue
        f = rec.split(' ')
        if f[0] == 'S':
            if k >= n:
                return bad('extra-step', 'run ends after %d steps (%s)' % (n, end[0]), 'step %d goes to %s' % (k + 1, f[1]))
            nxt, snap, out, err = steps[k]
            try:
                isnap = I.parse_state_debug(bytes.fromhex(f[2]).decode('utf-8'))
            except (AssertionError, ValueError):
                return bad('state-format', str(snap), bytes.fromhex(f[2]).decode('utf-8', 'replace'))
            iout = bytes.fromhex(f[3]).decode('utf-8', 'replace')
            ierr = bytes.fromhex(f[4]).decode('utf-8', 'replace')
            if int(f[1]) != nxt:
                return bad('next', 'step %d: next command %d' % (k + 1, nxt), 'next command %s' % f[1])
            if isnap != snap:
                return bad('state', 'step %d: %s' % (k + 1, snap), str(isnap))
            if iout != out or ierr != err:
                return bad('output', 'step %d: out=%r err=%r' % (k + 1, out, err), 'out=%r err=%r' % (iout, ierr))
            k += 1
        elif f[0] == 'E':
            if k != n or end[0] != 'encoding':
                return bad('error', 'after %d steps: %s' % (n, end[0]),
                           'error after %d steps: %s' % (k, bytes.fromhex(f[1]).decode('utf-8', 'replace')))
            iout = bytes.fromhex(f[2]).decode('utf-8', 'replace')
            ierr = bytes.fromhex(f[3]).decode('utf-8', 'replace')
            if iout != end[2] or ierr != end[3]:
                return bad('output-at-error', 'out=%r err=%r' % (end[2], end[3]), 'out=%r err=%r' % (iout, ierr))
            st.add('ends', 'encoding')
            return 'encoding'
        elif f[0] == 'D':
            if k != n:
                return bad('steps', '%d steps' % n, '%d steps then %s' % (k, rec))
            if f[1] == 'end':
                if end[0] != 'end':
                    return bad('end', end[0], 'normal end')
                st.add('ends', 'end')
                return 'end'
            if end[0] not in ('budget', 'cut'):
                return bad('end', end[0], 'still running after %d steps' % k)
            st.add('ends', end[0])
            return end[0]
    # no D/E record: the process went away inside a step
    if end[0] == 'exit' and k == n:
        if r.status != 'exit=%d' % end[1]:
            return bad('exit-status', 'exit=%d' % end[1], r.status)
        iout = r.out.decode('utf-8', 'replace')
        ierr = r.err.decode('utf-8', 'replace')
        if iout != end[2] or ierr != end[3]:
            return bad('output-at-exit', 'out=%r err=%r' % (end[2], end[3]), 'out=%r err=%r' % (iout, ierr))
        st.add('ends', 'exit%d' % end[1])
        return 'exit'
    return bad('abrupt', 'after %d steps: %s' % (n, end[0]), 'process ended after %d steps with %s; stderr %r' % (
        k, r.status, r.err.decode('utf-8', 'replace')[-200:]))


# ------------------------------------------------------------------ (a) one step from every state

V = [Fraction(0), Fraction(1), Fraction(-1), Fraction(2), Fraction(1, 2), Fraction(-3, 2), Fraction(65), None]


def contents(maxlen, vals=V):
    out = [[]]
    for n in range(1, maxlen + 1):
        for t in itertools.product(vals, repeat=n):
            if t[0] is None:
                continue
            out.append(list(t))
    return out


AREAS_Q = ['', '♥', '♡', '♥?♡', '♥!♡', '?♥', '♥?💕!♡', '?', '♥!💕?♡', '♥!?', '!♥?💕', '♥💕', '♡?♥💕']
AREAS_T = AREAS_Q + ['!', '!♥', '♡?♥!💕', '♥!💕?♡', '??♥', '!!']


def onestep_task(kind, items):
    """items: list of (text, start, pre, stdin)"""
    st = Stats()
    sh = shim()
    for text, start, pre, inp in items:
        prog = P.parse(text)
        lockstep(sh, st, text, prog, inp, pre, start, 3 if kind == 'label' else 1, 'step:' + kind)
        st.add('states', (tuple(sorted((k, tuple(map(val_lit, v))) for k, v in pre.get('stacks', {}).items())), pre.get('cur')))
    return st


def onestep_cases(tier):
    cases = {'body': [], 'area': [], 'label': [], 'exit': [], 'stdin': []}
    clen = 3 if tier == 'quick' else 4
    dmax = 4 if tier == 'quick' else 6
    syls = [1, 2, 3]
    areas = AREAS_Q if tier == 'quick' else AREAS_T
    conts = contents(clen)
    # command bodies
    for sel in (0, 3, 4):
        for c in conts:
            for kind in range(6):
                for syl in syls:
                    for d in range(0, dmax + 1):
                        text = P.spell(kind, syl, d)
                        tcs = [[]] if (d == sel or d in (1, 2)) else [[], [Fraction(7)]]
                        for tc in tcs:
                            stacks = {sel: c}
                            if tc:
                                stacks[d] = tc
                            cases['body'].append((text, 0, {'stacks': stacks, 'cur': sel}, ''))
    # many operands: deep stacks, syllable counts up to 9
    deep = [Fraction(x) for x in (3, -1, 7, 0, 2, 65, -4, 9)]
    deep2 = [Fraction(1, 2), Fraction(-3, 2), None, Fraction(5), Fraction(2, 3)]
    for sel in (3, 0):
        for c in (deep, deep2, deep[:4]):
            for kind in range(1, 6):
                for syl in (4, 5, 7, 8, 9):
                    for d in (0, 1, 3, 4):
                        cases['body'].append((P.spell(kind, syl, d), 0, {'stacks': {sel: c}, 'cur': sel}, ''))
    # areas: one body per kind
    bodies = [(0, 1, 2), (1, 1, 3), (2, 2, 4), (3, 1, 3), (4, 2, 0), (5, 1, 4), (5, 2, 3)]
    for c in contents(3):
        for a in areas:
            for (kind, syl, d) in bodies:
                text = P.spell(kind, syl, d) + a
                cases['area'].append((text, 0, {'stacks': {3: c, 4: [Fraction(1), Fraction(2)]}, 'cur': 3}, ''))
    # label / ♡ outcomes: the label table is built by executing a registering command first (two-step traces);
    # the last jump source (an index, no encoding involved) is pre-set through the API
    for a in areas:
        if not any(h in a for h in P.HEARTS):
            continue
        for (kind, syl, d) in bodies:
            cnt = syl * d
            hearts = [h for h in a if h in P.HEARTS and h != '♡']
            regs = ['형']                                             # registers nothing
            for h in hearts[:1]:
                regs.append('형' + '.' * cnt + h)                     # same (count, heart): the tested command jumps back
                regs.append('형' + '.' * cnt + P.HEARTS[(P.HEARTS.index(h) + 1) % 11])   # same count, other heart
                regs.append('형' + '.' * (cnt + 1) + h)               # same heart, other count
            for reg in regs:
                text = reg + ' ' + P.spell(kind, syl, d) + a
                for c in ([], [Fraction(0)], [Fraction(1), Fraction(cnt)], [Fraction(cnt), Fraction(cnt - 1), Fraction(cnt)]):
                    for latest in (None, 0):
                        cases['label'].append((text, 0, {'stacks': {3: c}, 'cur': 3, 'latest': latest}, ''))
    # selected stack 1 / 2: exits before / after partial effects
    for sel in (1, 2):
        for kind in range(6):
            for syl in (1, 2):
                for d in range(0, 5):
                    for a in ('', '?♥', '♥'):
                        text = P.spell(kind, syl, d) + a
                        for c3 in ([], [Fraction(65)]):
                            cases['exit'].append((text, 0, {'stacks': {3: c3}, 'cur': sel}, ''))
    # stdin refill
    for inp in ('', 'a', 'ab\n', '\n', '가\n\U0001F600'):
        for c in ([], [Fraction(1)], [Fraction(66), Fraction(67)]):
            for kind in range(6):
                for syl in (1, 2, 3):
                    for d in (0, 1, 3):
                        for a in ('', '?♥', '!♥?♡'):
                            text = P.spell(kind, syl, d) + a
                            cases['stdin'].append((text, 0, {'stacks': {0: c}, 'cur': 0}, inp))
    return cases


# ------------------------------------------------------------------ (b) all programs from the initial state

def programs_task(alphabet, prefix, rest, inputs, binary):
    st = Stats()
    sh = shim()
    path = os.path.join(WORK, 'exec-%d.hyeong' % os.getpid())
    for tup in itertools.product(alphabet, repeat=rest):
        text = ' '.join(prefix + list(tup))
        prog = P.parse(text)
        for inp in inputs:
            lockstep(sh, st, text, prog, inp, {}, 0, MAXSTEPS, 'prog')
        if binary:
            with open(path, 'w', encoding='utf-8') as f:
                f.write(text)
            for inp in inputs:
                run_binary_case(sh, st, path, text, prog, inp)
        st.inc('programs')
    return st


def strip_banner(out):
    return strip_log_lines(out)


def run_binary_case(sh, st, path, text, prog, inp, klass='run0', B=300, color=False):
    """the real run::run at level 0 with a step budget vs the reference"""
    end, m, steps = I.run(prog, inp, max_steps=B, horizon=HORIZON)
    if end == 'unspecified':
        st.inc('cut')
        return
    if color:
        r = sh.child('run', hx(path), 0, B, hx(inp.encode('utf-8')), 20, 'always')
        r.out, r.err = strip_sgr(r.out), strip_sgr(r.err)
        st.inc('runs_with_colour')
    else:
        r = sh.run(path, 0, B, inp.encode('utf-8'))
    st.inc('runs')
    st.add('ends', 'run:' + end)
    case = {'kind': 'run', 'prog': text, 'stdin': inp, 'level': 0, 'budget': B, 'color': color}
    out = strip_banner(r.out)
    if out is None:
        st.violate(Violation('C01', 'exec', klass + ':banner', case, 'banner', repr(r.out[-200:]) + r.status))
        return
    out = out.decode('utf-8', 'replace')
    err = r.err.decode('utf-8', 'replace')
    exp_out, exp_err = m.out_text(), m.err_text()
    exp_status = {'end': 0, 'exit0': 0, 'exit1': 1, 'encoding': 1, 'budget': 1}[end]
    ok = r.status == 'exit=%d' % exp_status and out == exp_out
    if end in ('end', 'exit0', 'exit1'):
        ok = ok and err == exp_err
    elif end == 'encoding':
        ok = ok and err.startswith(exp_err) and '[error]' in err[len(exp_err):] and 'budget' not in err[len(exp_err):]
    else:
        ok = ok and err.startswith(exp_err) and 'step budget exhausted' in err[len(exp_err):]
    if not ok:
        st.violate(Violation('C01', 'exec', klass + ':' + end, case,
                             'status=%d out=%r err=%r(+diagnostic)' % (exp_status, exp_out, exp_err),
                             '%s out=%r err=%r' % (r.status, out, err)))


# ------------------------------------------------------------------ (d) curated long programs

def curated_programs():
    progs = []
    for p in sorted(glob.glob(os.path.join(REPO, 'examples', '*', '*.hyeong'))):
        progs.append((os.path.basename(p), open(p, encoding='utf-8').read()))
    # programs quoted in the repository's own tests
    import re
    for tf in ('execute_test.rs', 'optimize_test.rs'):
        src = open(os.path.join(REPO, 'tests', tf), encoding='utf-8').read()
        for i, m in enumerate(re.finditer(r'helper_function\(\s*"((?:[^"\\]|\\.)*)"', src)):
            progs.append(('%s#%d' % (tf, i), m.group(1).replace('\\n', '\n').replace('\\"', '"')))
    # unencodable output after some output, on stdout and on stderr
    def big(n_syl, n_dot):
        return '혀' + '어' * (n_syl - 2) + '엉' + '.' * n_dot
    from .eng_optdiff import push_value
    for name, n in (('d7ff', 0xD7FF), ('surrogate-d800', 0xD800), ('surrogate-dfff', 0xDFFF), ('e000', 0xE000),
                    ('last-scalar', 0x10FFFF), ('beyond-10ffff', 0x110000)):
        for sink in ('.', '..'):
            progs.append(('enc-%s-%s' % (name, len(sink)),
                          '혀어어어어엉............. 항%s %s 항%s 형... 항%s' % (sink, push_value(n), sink, sink)))
    return progs


INPUT_TOKENS = ['1', '7', ' ', '\n', '-', 'a']


def curated_inputs(n):
    out = []
    for k in range(0, n + 1):
        for t in itertools.product(INPUT_TOKENS, repeat=k):
            out.append(''.join(t))
    return out + ['12 34\n', '3 5', '9\n9\n', '가나\n', '\U0001F600\n']


def curated_task(name, text, inputs, binary):
    st = Stats()
    sh = shim()
    prog = P.parse(text)
    path = os.path.join(WORK, 'cur-%d.hyeong' % os.getpid())
    if binary:
        with open(path, 'w', encoding='utf-8') as f:
            f.write(text)
    for inp in inputs:
        lockstep(sh, st, text, prog, inp, {}, 0, 3000, 'curated')
        if binary:
            run_binary_case(sh, st, path, text, prog, inp, 'run0:curated')
            run_binary_case(sh, st, path, text, prog, inp, 'run0:curated:colour', color=True)
    st.inc('programs')
    return st


def label_programs():
    """register one label, then execute a second heart command: jumps iff (count, heart) are both equal"""
    out = []
    labs = [(c, h) for c in (1, 2, 3) for h in P.HEARTS[:11]]
    for (c1, h1) in labs:
        for (c2, h2) in labs:
            if (c1, h1) != (c2, h2) and c1 == c2 and h1 == h2:
                continue
            # 형{c1}h1 registers; 항. prints NaN/previous; second command with (c2,h2): equal -> jump back (loop), else go on
            out.append('형%s%s 항. 형%s%s 형.... 항.' % ('.' * c1, h1, '.' * c2, h2))
    return out


def file_form_programs():
    """the same small programs written the way editors and other systems write files: byte-order mark, CR LF / lone CR
    line ends, NUL, form feed, with and without a final line break - all of it text the grammar ignores"""
    from .eng_debug import P65, P66
    cmds = [P65, '항.', '형..♥', P66, '항..', '형...?♥', '항.']
    out = []
    for sep in (' ', '\n', '\r\n', '\r', '\x00', '\x0c', '\ufeff', '\t', '\u2028', '\r\r\n'):
        for pre in ('', '\ufeff', '\r\n', '\ufeff\r\n'):
            for post in ('', '\n', '\r\n', '\x00', '\x1a'):
                out.append(pre + sep.join(cmds) + post)
    return out


STDIN_EXT = ['x', 'x\r\n', '\x00y\n', '\U0001F600\U00010000\n\n']


def list_task(texts):
    st = Stats()
    sh = shim()
    path = os.path.join(WORK, 'list-%d.hyeong' % os.getpid())
    for text in texts:
        prog = P.parse(text)
        lockstep(sh, st, text, prog, 'ab\nc', {}, 0, 120, 'labels')
        with open(path, 'w', encoding='utf-8') as f:
            f.write(text)
        run_binary_case(sh, st, path, text, prog, 'ab\nc', 'run0:labels')
        run_binary_case(sh, st, path, text, prog, 'ab\nc', 'run0:labels:colour', color=True)
        st.inc('programs')
    return st


def scale_task(texts):
    """long programs (deep stacks, many labels, thousands of steps): lock-step after every command, and the real run"""
    st = Stats()
    sh = shim()
    path = os.path.join(WORK, 'scale-%d.hyeong' % os.getpid())
    for text in texts:
        prog = P.parse(text)
        lockstep(sh, st, text, prog, 'ab\nc', {}, 0, 3000, 'scale')
        with open(path, 'w', encoding='utf-8') as f:
            f.write(text)
        run_binary_case(sh, st, path, text, prog, 'ab\nc', 'run0:scale', B=3000)
        st.inc('programs')
    return st


def _task(t):
    if t[0] == 'scale-list':
        return scale_task(t[1])
    if t[0] == 'curated-list':
        return list_task(t[1])
    if t[0] == 'onestep':
        return onestep_task(t[1], t[2])
    if t[0] == 'programs':
        return programs_task(*t[1:])
    return curated_task(*t[1:])


def run_c01(tier):
    st = Stats()
    tasks = []
    cases = onestep_cases(tier)
    for kind, items in cases.items():
        for i in range(0, len(items), 1500):
            tasks.append(('onestep', kind, items[i:i + 1500]))
    if tier == 'quick':
        alpha, n = A20, 3
        inputs = ['', 'ab\nc']
    else:
        alpha, n = A40, 4
        inputs = ['', 'ab\nc']
    for L in range(0, n + 1):
        if L <= 1:
            tasks.append(('programs', alpha, [], L, inputs + STDIN_EXT, True))
        else:
            for a in alpha:
                if L == 4:
                    for b in alpha:
                        tasks.append(('programs', alpha, [a, b], L - 2, inputs, False))
                else:
                    tasks.append(('programs', alpha, [a], L - 1, inputs, tier == 'quick' or L <= 3))
    from .eng_optdiff import bigarith_family, labelflow_family
    labs = label_programs() + labelflow_family() + bigarith_family() + file_form_programs()
    for i in range(0, len(labs), 60):
        tasks.append(('curated-list', labs[i:i + 60]))
    from . import scale
    sc = scale.onestep_scale(tier)
    for i in range(0, len(sc), 40):
        tasks.append(('onestep', 'scale', sc[i:i + 40]))
    lsc = [(t, 0, {'stacks': {3: c}, 'cur': 3, 'latest': None}, '') for t in scale.label_scale()
           for c in ([], [Fraction(1), Fraction(256)])]
    tasks.append(('onestep', 'label', lsc))
    sp = scale.scale_programs(tier)
    for i in range(0, len(sp), 4):
        tasks.append(('scale-list', sp[i:i + 4]))
    cur = curated_programs()
    cin = curated_inputs(2 if tier == 'quick' else 3)
    for name, text in cur:
        for i in range(0, len(cin), 12):
            tasks.append(('curated', name, text, cin[i:i + 12], True))
    collect(st, pmap(_task, [(t,) for t in tasks]))
    cov = {
        'states': len(st.sets.get('states', ())),
        'transitions': st.n.get('transitions', 0),
        'traces_validated_against_impl': st.n.get('traces', 0) + st.n.get('runs', 0),
        'exhaustive': True,
        'rule': 'state = interpreter configuration (stacks, selected stack, label table, last jump source, output, input '
                'position); transition = one command. (a) every command of the command alphabet from every constructed '
                'state; (b) every program over the alphabet up to the length bound from the initial state, compared after '
                'every command; (c) the same programs through the real run::run at level 0; (d) example and test programs '
                'with all short inputs. `states` counts distinct constructed start states of (a).',
        'scope': {'onestep_cases': {k: len(v) for k, v in cases.items()},
                  'program_alphabet': alpha, 'program_max_len': n, 'programs': st.n.get('programs', 0),
                  'lockstep_traces': st.n.get('traces', 0), 'binary_runs': st.n.get('runs', 0),
                  'binary_runs_with_colour_always': st.n.get('runs_with_colour', 0),
                  'label_pair_programs': len(labs),
                  'size_ladder': {'onestep_cases': len(sc), 'label_count_products': len(lsc), 'programs': len(sp),
                                  'step_bound': 3000, 'sizes': scale.LADDER if tier == 'quick' else scale.LADDER_LONG}, 'curated_programs': [c[0] for c in cur], 'curated_inputs': len(cin),
                  'step_bound': MAXSTEPS, 'value_horizon_bits': HORIZON,
                  'paths_cut_unspecified_or_horizon': st.n.get('cut', 0)},
        'distinct_outcomes': sorted(st.sets.get('ends', ())),
        'samples': [{'prog': '형.. 흑. 항 ', 'stdin': ''}, {'prog': '흐읏.?♥', 'state': 'stack 3 = [1, -3/2, NaN]'},
                    {'prog': 'examples/a_plus_b', 'stdin': '1 7\n'}],
    }
    return finish(cov, st)


def replay(case):
    sh = shim()
    st = Stats()
    prog = P.parse(case['prog'])
    if case['kind'] == 'trace':
        pre = pre_from_json(case['pre'])
        lockstep(sh, st, case['prog'], prog, case['stdin'], pre, case['start'], case['max_steps'], 'replay')
    else:
        path = os.path.join(WORK, 'replay-%d.hyeong' % os.getpid())
        with open(path, 'w', encoding='utf-8') as f:
            f.write(case['prog'])
        run_binary_case(sh, st, path, case['prog'], prog, case['stdin'], B=case.get('budget', 300), color=case.get('color', False))
    if st.violations:
        return st.violations[0].expected, st.violations[0].observed
    return 'agree', 'agree'


RUNNERS = {'C01': run_c01}
