"""Engine `num`: exhaustive operand-grid exploration of BigNum / Num against R-NUM.
Serves C05 (big integers), C06 (rationals), C07 (comparison), C09 (text round trips)."""
import itertools
from fractions import Fraction

from . import refnum as R
from . import refparse
from .common import Stats, Violation, hx, pmap, shim, finish, collect, guard_task

L5 = [0, 1, 1 << 31, (1 << 32) - 2, (1 << 32) - 1]
L8 = L5 + [2, (1 << 31) - 1, 1 << 16]
ISIZE_MAX = (1 << 63) - 1
ISIZE_MIN = -(1 << 63)
TIER = ['quick']


# ------------------------------------------------------------------ C05

def big_vectors(k, limbs):
    """all limb vectors (little endian) of length 1..k over `limbs`, leading zeros included"""
    out = []
    for j in range(1, k + 1):
        for v in itertools.product(limbs, repeat=j):
            out.append(list(v))
    return out


def big_values(k, limbs):
    vals = set()
    for v in big_vectors(k, limbs):
        n = R.from_limbs(v)
        vals.add(n)
        vals.add(-n)
    return sorted(vals, key=lambda x: (abs(x).bit_length(), abs(x), x < 0))


LADDER_Q = [4, 5, 8, 9, 16, 17]
LADDER_T = [4, 5, 7, 8, 9, 15, 16, 17, 31, 32, 33, 63, 64, 65, 127, 128, 129]


def ladder_magnitudes(sizes):
    """three magnitudes per limb count: all ones, 2^(32(n-1)) + 1, and a dense pattern"""
    out = []
    for n in sizes:
        out.append((1 << (32 * n)) - 1)
        out.append((1 << (32 * (n - 1))) + 1)
        out.append(R.from_limbs([((0x9E3779B1 * (i + 1)) & 0xFFFFFFFF) | 1 for i in range(n)]))
    return out


def ladder_values(tier):
    """operands whose limb count crosses 4, 8, 16 (thorough: 32, 64, 128) - the sizes at which a fast path would switch"""
    vals = {0, 1, -1, 3, (1 << 32) - 1, 1 << 32, -((1 << 64) + 1)}
    for m in ladder_magnitudes(LADDER_Q if tier == 'quick' else LADDER_T):
        vals.add(m)
        vals.add(-m)
    return sorted(vals, key=lambda x: (abs(x).bit_length(), abs(x), x < 0))


def ctor_values():
    s = {0, ISIZE_MAX, ISIZE_MIN}
    for k in range(0, 64):
        for d in (-1, 0, 1):
            for sg in (1, -1):
                n = sg * ((1 << k) + d)
                if ISIZE_MIN <= n <= ISIZE_MAX:
                    s.add(n)
    return sorted(s)


def exp_big_obs(n):
    """expected `big_obs` text: decimal, is_pos, is_zero, to_int"""
    return '%d %d %d %d' % (n, 1 if n >= 0 else 0, 1 if n == 0 else 0, abs(n) & 0xFFFFFFFF)


BIN_OPS = ('add', 'sub', 'mul', 'div', 'rem', 'gcd')


def big_expected(op, a, b):
    if op == 'add':
        return a + b
    if op == 'sub':
        return a - b
    if op == 'mul':
        return a * b
    if op == 'div':
        return R.trunc_div(a, b)
    if op == 'rem':
        return R.trunc_rem(a, b)
    if op == 'gcd':
        from math import gcd
        return gcd(a, b)
    raise ValueError(op)


def _check_bop(st, prop, op, a, b, resp, where):
    """resp: eq eqrev eqneg is_pos is_zero to_int same [text]"""
    e = big_expected(op, a, b)
    st.inc('transitions')
    case = {'kind': 'big_binop', 'op': op, 'a': str(a), 'b': str(b), 'where': where, 'tier': TIER[0]}
    if resp.startswith('PANIC') or resp.startswith('ERR'):
        st.violate(Violation(prop, 'num', 'big:%s:panic' % op, case, str(e), resp))
        return None
    f = resp.split(' ')
    if len(f) < 7:
        st.violate(Violation(prop, 'num', 'big:%s:malformed' % op, case, str(e), resp))
        return None
    eq, eqrev, eqneg, pos, zero, toint, same = f[:7]
    ok = True
    if op == 'gcd':
        # magnitude only
        if not (eq == '1' or eqneg == '1'):
            ok = False
        if int(toint) != (abs(e) & 0xFFFFFFFF) or zero != ('1' if e == 0 else '0'):
            ok = False
    else:
        if eq != '1' or eqrev != '1':
            ok = False
        if pos != ('1' if e >= 0 else '0') or zero != ('1' if e == 0 else '0') or int(toint) != (abs(e) & 0xFFFFFFFF):
            ok = False
        if same != '1':
            ok = False
        if len(f) > 7 and f[7] != str(e):
            ok = False
    if not ok:
        st.violate(Violation(prop, 'num', 'big:%s' % op, case, exp_big_obs(e), resp))
    return e


@guard_task('C05', 'num')
def c05_rows(values, rows, text_bits):
    """all ops on (values[i], values[j]) for i in rows, all j"""
    st = Stats()
    sh = shim()
    reqs = [('num', 'bset', k, R.lit(v)) for k, v in enumerate(values)]
    resps = sh.batch(reqs)
    for v, r in zip(values, resps):
        if r != exp_big_obs(v):
            st.violate(Violation('C05', 'num', 'big:from_vec', {'kind': 'big_from_vec', 'limbs': R.lit(v)},
                                 exp_big_obs(v), r))
    T = len(values)  # scratch register
    for i in rows:
        a = values[i]
        st.sample({'op': 'all binary operations', 'a': str(a), 'b': str(values[(i * 7 + 3) % len(values)])})
        reqs = []
        meta = []
        for j, b in enumerate(values):
            for op in BIN_OPS:
                if op in ('div', 'rem') and b == 0:
                    continue
                if op == 'gcd' and min(abs(a), abs(b)).bit_length() > (300 if TIER[0] == 'quick' else 1100):
                    continue        # Euclid on the implementation's bit-search division: up to seconds per pair
                e = big_expected(op, a, b)
                want_text = abs(e).bit_length() <= text_bits
                r = ['num', 'bop', op, i, j, T, R.lit(e)]
                if want_text and op != 'gcd':
                    r.append('d')
                reqs.append(r)
                meta.append(('bop', op, b))
            reqs.append(('num', 'bcmp', i, j))
            meta.append(('cmp', None, b))
        resps = sh.batch(reqs)
        for (kind, op, b), resp in zip(meta, resps):
            if kind == 'bop':
                _check_bop(st, 'C05', op, a, b, resp, 'grid')
            else:
                st.inc('transitions')
                exp = '%d %s' % (1 if a == b else 0, 'L' if a < b else ('E' if a == b else 'G'))
                if resp != exp:
                    st.violate(Violation('C05', 'num', 'big:cmp', {'kind': 'big_cmp', 'a': str(a), 'b': str(b)},
                                         exp, resp))
                st.add('outcomes', resp)
        st.inc('pairs', len(values))
    return st


@guard_task('C05', 'num')
def c05_singles(vectors_k, limbs, text_bits):
    """from_vec normalisation on every raw vector (incl. leading zeros), neg/minus, constructor"""
    st = Stats()
    sh = shim()
    vecs = big_vectors(vectors_k, limbs)
    reqs = []
    meta = []
    for v in vecs:
        n = R.from_limbs(v)
        lit = ','.join(map(str, v))
        for sg in ('', '-'):
            m = -n if sg else n
            reqs.append(('num', 'bset', 0, sg + lit))
            meta.append(('from_vec', sg + lit, m, exp_big_obs(m)))
            reqs.append(('num', 'bun', 'neg', 0, 1))
            meta.append(('neg', sg + lit, m, exp_big_obs(-m)))
            reqs.append(('num', 'bun', 'minus', 0, 1))
            meta.append(('minus', sg + lit, m, exp_big_obs(-m)))
            reqs.append(('num', 'bchk', 0, R.lit(m)))
            meta.append(('eq_normal', sg + lit, m, '1 1 %d %d %d' % (1 if m >= 0 else 0, 1 if m == 0 else 0,
                                                                     abs(m) & 0xFFFFFFFF)))
    for n in ctor_values():
        reqs.append(('num', 'bnew', 0, n))
        meta.append(('new', str(n), n, exp_big_obs(n)))
        reqs.append(('num', 'bchk', 0, R.lit(n)))
        meta.append(('new_eq', str(n), n, '1 1 %d %d %d' % (1 if n >= 0 else 0, 1 if n == 0 else 0,
                                                             abs(n) & 0xFFFFFFFF)))
    # the named constants, observed and used as operands (0 + 0, 0 * -1, 1 - 1 ...)
    for name, val in (('zero', 0), ('one', 1)):
        reqs.append(('num', 'bconst', 0, name))
        meta.append(('const-' + name, name, val, exp_big_obs(val)))
        reqs.append(('num', 'bchk', 0, R.lit(val)))
        meta.append(('const-eq-' + name, name, val, '1 1 %d %d %d' % (1, 1 if val == 0 else 0, val)))
        for other in (0, -1, 5):
            reqs.append(('num', 'bset', 1, R.lit(other)))
            meta.append((None, None, None, None))
            for op in ('add', 'sub', 'mul'):
                e = big_expected(op, val, other)
                reqs.append(('num', 'bop', op, 0, 1, 2, R.lit(e), 'd'))
                meta.append(('const-%s-%s' % (name, op), '%s %s %d' % (name, op, other), e, None))
    resps = sh.batch(reqs)
    for (kind, lit, m, exp), resp in zip(meta, resps):
        if kind is None:
            continue
        st.inc('transitions')
        if exp is None:
            _check_bop(st, 'C05', kind.split('-')[-1], {'zero': 0, 'one': 1}[kind.split('-')[1]], int(lit.split(' ')[-1]), resp, 'const')
            continue
        if resp != exp:
            st.violate(Violation('C05', 'num', 'big:' + kind, {'kind': 'big_single', 'op': kind, 'arg': lit},
                                 exp, resp))
    st.inc('singles', len(vecs) * 2 + len(ctor_values()))
    return st


@guard_task('C05', 'num')
def c05_closure(seeds, depth2):
    """results of operations are kept as live registers and used as operands again"""
    st = Stats()
    sh = shim()
    regs = []  # (value) ; index = register number
    for v in seeds:
        sh.call('num', 'bset', len(regs), R.lit(v))
        regs.append(v)
    seen = set(seeds)
    frontier = list(range(len(seeds)))
    base = list(range(len(seeds)))

    def expand(pairs):
        new = []
        reqs = []
        meta = []
        nxt = len(regs)
        for i, j in pairs:
            a, b = regs[i], regs[j]
            for op in ('add', 'sub', 'mul', 'div', 'rem'):
                if op in ('div', 'rem') and b == 0:
                    continue
                e = big_expected(op, a, b)
                if abs(e).bit_length() > 400:
                    continue
                if e in seen:
                    k = 100000  # scratch
                else:
                    seen.add(e)
                    k = nxt
                    nxt += 1
                    new.append(k)
                    while len(regs) <= k:
                        regs.append(None)
                    regs[k] = e
                reqs.append(('num', 'bop', op, i, j, k, R.lit(e)))
                meta.append((op, a, b))
        resps = sh.batch(reqs)
        for (op, a, b), resp in zip(meta, resps):
            _check_bop(st, 'C05', op, a, b, resp, 'closure')
        return new

    new1 = expand([(i, j) for i in base for j in base])
    st.inc('closure_values_depth1', len(new1))
    if depth2:
        pairs = [(i, j) for i in new1 for j in base] + [(i, j) for i in base for j in new1]
        new2 = expand(pairs)
        st.inc('closure_values_depth2', len(new2))
    return st


def c05_seeds(tier):
    if tier == 'quick':
        return [0, 1, -1, 2, (1 << 32) - 1, 1 << 32, -(1 << 32) - 1, (1 << 64) - 1, 3, -7]
    return [0, 1, -1, 2, 3, -7, 10, (1 << 31), (1 << 32) - 1, 1 << 32, (1 << 32) + 1, -(1 << 32) - 1,
            (1 << 64) - 1, 1 << 64, -(1 << 63), (1 << 96) - 1, 6, -6, 1 << 16, (1 << 33) + 5,
            -(1 << 64) - 1, 12345678901234567890, -4294967294, 4294967295 * 4294967295]


def run_c05(tier):
    TIER[0] = tier
    st = Stats()
    if tier == 'quick':
        values = big_values(3, L5)
        chunk = 4
        text_bits = 64
        single_k = 3
    else:
        values = sorted(set(big_values(4, L5)) | set(big_values(3, L8)),
                        key=lambda x: (abs(x).bit_length(), abs(x), x < 0))
        chunk = 2
        text_bits = 64
        single_k = 4
    seeds = c05_seeds(tier)
    tasks = [(values, list(range(i, min(i + chunk, len(values)))), text_bits) for i in range(0, len(values), chunk)]
    values2 = []
    if tier != 'quick':
        # long operands: up to 6 limbs over {0, 2^32-1} and up to 5 limbs over {0, 1, 2^32-1}
        values2 = sorted(set(big_values(6, [0, (1 << 32) - 1])) | set(big_values(5, [0, 1, (1 << 32) - 1])),
                         key=lambda x: (abs(x).bit_length(), abs(x), x < 0))
        tasks += [(values2, list(range(i, min(i + 4, len(values2)))), text_bits) for i in range(0, len(values2), 4)]
    values3 = ladder_values(tier)
    # (decimal text only up to 2200 bits: the implementation prints by repeated division, seconds per number beyond that)
    tasks += [(values3, list(range(i, min(i + 4, len(values3)))), 2200) for i in range(0, len(values3), 4)]
    collect(st, pmap(c05_rows, tasks))
    collect(st, pmap(c05_singles, [(single_k, L5 if tier == 'quick' else L8, text_bits)]))
    collect(st, pmap(c05_closure, [(seeds, True)]))
    cov = {
        'states': len(values) + st.n.get('closure_values_depth1', 0) + st.n.get('closure_values_depth2', 0),
        'transitions': st.n.get('transitions', 0),
        'traces_validated_against_impl': st.n.get('transitions', 0),
        'exhaustive': True,
        'rule': 'state = integer value; transition = one BigNum operation on an operand pair (pure and in-place), '
                'result compared with Python int via == against from_vec(expected), sign/zero/low-limb observers '
                'and decimal text for results up to %d bits' % text_bits,
        'scope': {'distinct_operand_values': len(values), 'long_operand_values_second_grid': len(values2),
                  'size_ladder_grid': {'values': len(values3), 'limb_counts': LADDER_Q if tier == 'quick' else LADDER_T,
                                       'decimal_text_compared_up_to_bits': 2200},
                  'ordered_pairs': st.n.get('pairs', 0),
                  'ops': list(BIN_OPS) + ['==', 'partial_cmp', 'neg', 'minus', 'from_vec', 'new'],
                  'limb_alphabet': 'L5=%r%s' % (L5, '' if tier == 'quick' else ' and L8=%r' % L8),
                  'max_limbs': 3 if tier == 'quick' else 4,
                  'constructor_values': len(ctor_values()),
                  'closure': {'seeds': len(seeds), 'depth1_new': st.n.get('closure_values_depth1', 0),
                              'depth2_new': st.n.get('closure_values_depth2', 0)}},
        'distinct_outcomes': len(st.sets.get('outcomes', ())),
        'samples': [{'op': 'div', 'a': str(values[len(values) // 2]), 'b': str(values[len(values) // 3]),
                     'expected': str(R.trunc_div(values[len(values) // 2], values[len(values) // 3] or 1))},
                    {'op': 'from_vec', 'limbs': [0, 4294967295, 0]},
                    {'op': 'new', 'n': str(ISIZE_MIN)}],
    }
    return finish(cov, st)


# ------------------------------------------------------------------ C06 / C07 / C09 (rationals)

P_ABS = [0, 1, 2, 3, 4, 6, 9, (1 << 32) - 1, 1 << 32, (1 << 32) + 1, (1 << 64) + 1, 6 * ((1 << 32) - 1),
         (1 << 64) - 1, (1 << 64) + (1 << 32) - 1]            # the last one has limbs [2^32-1, 0, 1]
Q_SET = [1, 2, 3, 4, 6, 9, (1 << 32) - 1, 1 << 32, 3 * (1 << 32), (1 << 32) + 1, (1 << 64) + (1 << 32) - 1]


P_ABS_T = P_ABS + [5, 7, 10, 65, 1 << 31, (1 << 33) + 3, (1 << 96) - 1, (1 << 64) * 3 + 1, 12345678901234567890]
Q_SET_T = Q_SET + [5, 7, 10, 1 << 31, (1 << 33) + 3, (1 << 64) + 1, (1 << 64) - 1, (1 << 96) - 1]


def rat_alphabet(tier):
    """list of (p, q): every numerator (both signs) over every denominator"""
    items = []
    pa, qs = (P_ABS, Q_SET) if tier == 'quick' else (P_ABS_T, Q_SET_T)
    ps = sorted(set(pa) | set(-p for p in pa))
    for p in ps:
        for q in qs:
            items.append((p, q))
    return items


def ladder_rationals(tier, small=False):
    """(p, q) pairs whose parts have 4..17 (thorough: ..65) limbs: the sizes at which a fast path would switch"""
    sizes = [4, 8, 9, 16, 17] if tier == 'quick' else [4, 5, 8, 9, 16, 17, 32, 33, 64, 65]
    if small:           # the arithmetic grid pays a multi-limb gcd per operation
        sizes = [4, 9, 17] if tier == 'quick' else [4, 5, 8, 9, 16, 17, 32, 33]
    out = [(0, 1), (1, 1), (-1, 2), (3, 1 << 32)]
    for n in sizes:
        mags = ladder_magnitudes([n])
        for m in mags:
            for q in ((1, 3) if small and tier == 'quick' else (1, 3, (1 << 32) + 1)):
                out.append((m, q))
                out.append((-m, q))
            out.append((1, m))
            if not (small and tier == 'quick'):
                out.append((-7, m))
        out.append((mags[2], ladder_magnitudes([n - 1])[2]))
        out.append((-mags[0], mags[2]))
    return out


def near_ties():
    """(p, q) pairs as close to a small integer k - and to each other - as their denominator allows: k +- 1/q for
    denominators around 2^53, 2^63, 2^64 and longer ones. Any comparison that approximates gets these wrong."""
    out = []
    qs = [(1 << 24) + 1, (1 << 53) + 1, (1 << 53) + 3, (1 << 63) + 1, (1 << 64) + 1, (1 << 64) + (1 << 32) - 1]
    qs += [ladder_magnitudes([4])[2], ladder_magnitudes([9])[2]]
    for q in qs:
        for k in (1, 3, 6, -3):
            out.append((k, 1))
            for d in (-1, 1):
                out.append((k * q + d, q))
                out.append((k * (q + 2) + d, q + 2))
    return out


def exp_num_obs(v):
    return '%s|%d|%d' % (R.num_text(v), 1 if (v is not None and v >= 0) else 0, 1 if v is None else 0)


def spellings(v):
    """(P, Q, P2, Q2) literals: canonical and a non-reduced spelling of v"""
    p, q = v.numerator, v.denominator
    return R.lit(p), R.lit(q), R.lit(p * 6), R.lit(q * 6)


def _nchk_expect(v):
    return '1 1 1 %d 0' % (1 if v >= 0 else 0)


def load_rationals(sh, st, prop, pairs, check_ctor):
    """Registers 0..n-1 <- distinct values of the alphabet (+ NaN last). Returns list of values."""
    vals = []
    seen = {}
    reqs = []
    meta = []
    # big registers 0,1 are scratch for from_big_num
    for (p, q) in pairs:
        v = Fraction(p, q)
        if v in seen:
            k = 90000
        else:
            k = len(vals)
            seen[v] = k
            vals.append(v)
        reqs.append(('num', 'bset', 0, R.lit(p)))
        meta.append(None)
        reqs.append(('num', 'bset', 1, R.lit(q)))
        meta.append(None)
        reqs.append(('num', 'nbig', k, 0, 1))
        meta.append(('from_big_num', (p, q), v))
        if check_ctor and ISIZE_MIN <= p <= ISIZE_MAX and q <= ISIZE_MAX:
            reqs.append(('num', 'nnew', 90001, p, q))
            meta.append(('new', (p, q), v))
            if q == 1:
                reqs.append(('num', 'nnum', 90001, p))
                meta.append(('from_num', (p, q), v))
    nan_reg = len(vals)
    reqs.append(('num', 'nnan', nan_reg))
    meta.append(('nan', None, None))
    vals.append(None)
    resps = sh.batch(reqs)
    for m, r in zip(meta, resps):
        if m is None:
            continue
        kind, pq, v = m
        if check_ctor:
            st.inc('transitions')
            if r != exp_num_obs(v):
                st.violate(Violation(prop, 'num', 'num:ctor:' + kind,
                                     {'kind': 'num_ctor', 'ctor': kind, 'pq': [str(x) for x in (pq or ())]},
                                     exp_num_obs(v), r))
    return vals


def _check_num_result(st, prop, sh_resps, it, v_exp, case, klass):
    """consume responses for one result: nop/nun response, then nchk (if not NaN), then nobs (optional)"""
    pass


@guard_task('C06', 'num')
def c06_rows(pairs, rows, text_bits, chk=True):
    st = Stats()
    sh = shim()
    vals = load_rationals(sh, st, 'C06', pairs, check_ctor=(rows and rows[0] == 0))
    T = len(vals) + 5
    for i in rows:
        a = vals[i]
        st.sample({'op': 'add, mul', 'a': R.num_text(a), 'b': R.num_text(vals[(i * 5 + 1) % len(vals)])})
        reqs = []
        meta = []
        for j, b in enumerate(vals):
            for op in ('add', 'mul'):
                e = R.n_add(a, b) if op == 'add' else R.n_mul(a, b)
                reqs.append(('num', 'nop', op, i, j, T))
                meta.append(('nop', op, b, e))
                if e is not None and chk:
                    reqs.append(('num', 'nchk', T) + spellings(e))
                    meta.append(('nchk', op, b, e))
                if e is None or max(abs(e.numerator).bit_length(), e.denominator.bit_length()) <= text_bits:
                    reqs.append(('num', 'nobs', T))
                    meta.append(('nobs', op, b, e))
        resps = sh.batch(reqs)
        for (kind, op, b, e), resp in zip(meta, resps):
            st.inc('transitions')
            case = {'kind': 'num_binop', 'op': op, 'a': R.num_text(a), 'b': R.num_text(b), 'observer': kind}
            if kind == 'nop':
                exp = '%d %d 1' % (1 if (e is not None and e >= 0) else 0, 1 if e is None else 0)
            elif kind == 'nchk':
                exp = _nchk_expect(e)
            else:
                exp = exp_num_obs(e)
                st.add('outcomes', resp)
            if resp != exp:
                st.violate(Violation('C06', 'num', 'num:%s' % op, case, exp + ' (value %s)' % R.num_text(e), resp))
        st.inc('pairs', len(vals))
    return st


@guard_task('C06', 'num')
def c06_unary(pairs):
    st = Stats()
    sh = shim()
    vals = load_rationals(sh, st, 'C06', pairs, check_ctor=False)
    T = len(vals) + 5
    reqs = []
    meta = []
    for i, a in enumerate(vals):
        for op in ('neg', 'minus', 'flip'):
            e = R.n_neg(a) if op != 'flip' else R.n_flip(a)
            reqs.append(('num', 'nun', op, i, T))
            meta.append((op, a, exp_num_obs(e)))
            if e is not None:
                reqs.append(('num', 'nchk', T) + spellings(e))
                meta.append((op + ':eq', a, _nchk_expect(e)))
            # twice: back to the start (flip of zero is NaN and stays NaN)
            e2 = R.n_neg(e) if op != 'flip' else R.n_flip(e)
            reqs.append(('num', 'nun', op, T, T + 1))
            meta.append((op + ':twice', a, exp_num_obs(e2)))
        if a is not None and a >= 0:
            reqs.append(('num', 'nfloor', i))
            meta.append(('floor', a, exp_big_obs(R.floor_nonneg(a))))
        reqs.append(('num', 'nobs', i))
        meta.append(('obs', a, exp_num_obs(a)))
    for name, val in (('zero', Fraction(0)), ('one', Fraction(1))):
        reqs.append(('num', 'nconst', T + 40, name))
        meta.append(('const:' + name, val, exp_num_obs(val)))
        reqs.append(('num', 'nchk', T + 40) + spellings(val))
        meta.append(('const:%s:eq' % name, val, _nchk_expect(val)))
        for op in ('add', 'mul'):
            reqs.append(('num', 'nop', op, T + 40, T + 40, T + 41))
            meta.append((None, None, None))
            e = R.n_add(val, val) if op == 'add' else R.n_mul(val, val)
            reqs.append(('num', 'nobs', T + 41))
            meta.append(('const:%s:%s' % (name, op), val, exp_num_obs(e)))
    # NaN reached in different ways (negated, flipped zero, sum/product with NaN) is still just NaN as an operand
    nan = next(k for k, v in enumerate(vals) if v is None)
    zero = next(k for k, v in enumerate(vals) if v == 0)
    N0 = T + 10
    reqs += [('num', 'nun', 'neg', nan, N0), ('num', 'nun', 'minus', nan, N0 + 1), ('num', 'nun', 'flip', zero, N0 + 2),
             ('num', 'nun', 'neg', N0 + 2, N0 + 3), ('num', 'nop', 'add', nan, zero, N0 + 4), ('num', 'nop', 'mul', N0, N0 + 1, N0 + 5)]
    meta += [('nan-variant', None, None)] * 6
    nans = [nan, N0, N0 + 1, N0 + 2, N0 + 3, N0 + 4, N0 + 5]
    for x in nans:
        for y in nans + [zero, 0, 1, 2]:
            for op in ('add', 'mul'):
                for (i, j) in ((x, y), (y, x)):
                    reqs.append(('num', 'nop', op, i, j, T))
                    meta.append(('nan-operand', (op, i - N0 if i >= N0 else ('nan' if i == nan else i), j - N0 if j >= N0 else ('nan' if j == nan else j)), '0 1 1'))
                    reqs.append(('num', 'nobs', T))
                    meta.append(('nan-operand:text', (op, i - N0 if i >= N0 else ('nan' if i == nan else i), j - N0 if j >= N0 else ('nan' if j == nan else j)), exp_num_obs(None)))
    resps = sh.batch(reqs)
    for (op, a, exp), resp in zip(meta, resps):
        st.inc('transitions')
        if op == 'nan-variant' or op is None:
            continue
        if resp != exp and op.startswith('const:'):
            st.violate(Violation('C06', 'num', 'num:' + op, {'kind': 'num_const', 'op': op}, exp, resp))
            continue
        if resp != exp and op.startswith('nan-operand'):
            st.violate(Violation('C06', 'num', 'num:nan-operand', {'kind': 'nan_operand', 'what': str(a)},
                                 exp, resp))
            continue
        if resp != exp:
            st.violate(Violation('C06', 'num', 'num:' + op, {'kind': 'num_unary', 'op': op, 'a': R.num_text(a)},
                                 exp, resp))
    st.inc('unary_values', len(vals))
    return st


@guard_task(0, 'num')
def num_closure(prop, seeds, depth2, roundtrip):
    """closure BFS over live Num objects: results are re-used as operands.
    C06: values/canonical form.  C09 (roundtrip=True): text round trip of every value reached."""
    st = Stats()
    sh = shim()
    regs = []
    for v in seeds:
        k = len(regs)
        if v is None:
            sh.call('num', 'nnan', k)
        else:
            sh.call('num', 'bset', 0, R.lit(v.numerator))
            sh.call('num', 'bset', 1, R.lit(v.denominator))
            sh.call('num', 'nbig', k, 0, 1)
        regs.append(v)
    seen = set(seeds)
    base = list(range(len(seeds)))

    def expand(items):
        """items: (op, i, j|None)"""
        new = []
        reqs = []
        meta = []
        nxt = len(regs)
        for op, i, j in items:
            a = regs[i]
            b = regs[j] if j is not None else None
            if op == 'add':
                e = R.n_add(a, b)
            elif op == 'mul':
                e = R.n_mul(a, b)
            elif op == 'flip':
                e = R.n_flip(a)
            else:
                e = R.n_neg(a)
            if e is not None and max(abs(e.numerator).bit_length(), e.denominator.bit_length()) > 300:
                continue
            if e in seen:
                k = 90000
            else:
                seen.add(e)
                k = nxt
                nxt += 1
                new.append(k)
                regs.append(e)
            if j is None:
                reqs.append(('num', 'nun', op, i, k))
                meta.append((op, a, b, e, 'obs'))
            else:
                reqs.append(('num', 'nop', op, i, j, k))
                meta.append((op, a, b, e, 'nop'))
                reqs.append(('num', 'nobs', k))
                meta.append((op, a, b, e, 'obs'))
            if e is not None:
                reqs.append(('num', 'nchk', k) + spellings(e))
                meta.append((op, a, b, e, 'nchk'))
            if roundtrip:
                reqs.append(('num', 'nrt', k))
                meta.append((op, a, b, e, 'nrt'))
        resps = sh.batch(reqs)
        for (op, a, b, e, kind), resp in zip(meta, resps):
            st.inc('transitions')
            if kind == 'nop':
                exp = '%d %d 1' % (1 if (e is not None and e >= 0) else 0, 1 if e is None else 0)
            elif kind == 'obs':
                exp = exp_num_obs(e)
            elif kind == 'nchk':
                exp = _nchk_expect(e)
            else:
                # text | back == x | text again equal | back is nan
                if e is None:
                    f = resp.split('|')
                    ok = len(f) == 4 and f[0] == R.NAN_TEXT and f[2] == '1' and f[3] == '1'
                    if not ok:
                        st.violate(Violation('C09', 'num', 'num:roundtrip:nan',
                                             {'kind': 'num_roundtrip', 'value': 'nan', 'via': op}, 'NaN text, NaN back', resp))
                    continue
                exp = '%s|1|1|0' % R.num_text(e)
            if resp != exp:
                p = 'C09' if kind == 'nrt' else prop
                st.violate(Violation(p, 'num', 'num:closure:%s:%s' % (op, kind),
                                     {'kind': 'num_closure', 'op': op, 'a': R.num_text(a), 'tier': TIER[0], 'prop': prop,
                                      'b': R.num_text(b) if b is not None or op in ('add', 'mul') else None,
                                      'observer': kind}, exp, resp))
        return new

    def items_for(xs, ys):
        it = []
        for i in xs:
            for j in ys:
                it.append(('add', i, j))
                it.append(('mul', i, j))
        return it

    new1 = expand(items_for(base, base) + [(op, i, None) for i in base for op in ('neg', 'flip', 'minus')])
    st.inc('closure_values_depth1', len(new1))
    if depth2:
        new2 = expand(items_for(new1, base) + items_for(base, new1)
                      + [(op, i, None) for i in new1 for op in ('neg', 'flip', 'minus')])
        st.inc('closure_values_depth2', len(new2))
    st.inc('closure_total', len(regs))
    return st


CLOSURE_SEEDS = [Fraction(0), Fraction(1), Fraction(-1), Fraction(1, 2), Fraction(-3, 4), Fraction(1, 4),
                 Fraction(2, 3), Fraction(-5, 6), Fraction(7), Fraction(-9, 2), None,
                 Fraction((1 << 32) - 1), Fraction(1, 1 << 32), Fraction(-(1 << 32) - 1, 3),
                 Fraction((1 << 64) + 1, (1 << 32) - 1), Fraction(6, 35), Fraction(-10, 21), Fraction(3, 1 << 33)]
CLOSURE_SEEDS_T = CLOSURE_SEEDS + [Fraction(-1, 3), Fraction(5, 2), Fraction(-7, 9), Fraction(65), Fraction(1, 65),
                                   Fraction(-(1 << 31), 3), Fraction(9, 4), Fraction(-4, 9), Fraction(1 << 32, 3),
                                   Fraction(-(1 << 64) - 1, 1 << 32), Fraction(12, 5), Fraction(-1, 1 << 31)]


def run_c06(tier):
    TIER[0] = tier
    st = Stats()
    pairs = rat_alphabet(tier)
    nvals = len(set(Fraction(p, q) for p, q in pairs)) + 1
    chunk = 4 if tier == 'quick' else 2
    tasks = [(pairs, list(range(i, min(i + chunk, nvals))), 130) for i in range(0, nvals, chunk)]
    pairs2 = ladder_rationals(tier, small=True)
    nvals2 = len(set(Fraction(p, q) for p, q in pairs2)) + 1
    tasks += [(pairs2, list(range(i, min(i + 2, nvals2))), 1200, False) for i in range(0, nvals2, 2)]
    collect(st, pmap(c06_rows, tasks))
    seeds = CLOSURE_SEEDS if tier == 'quick' else CLOSURE_SEEDS_T
    collect(st, pmap(_c06_misc, [('unary', pairs, None, None), ('unary', pairs2, None, None), ('closure', None, seeds, True)]))
    cov = {
        'states': nvals + st.n.get('closure_total', 0),
        'transitions': st.n.get('transitions', 0),
        'traces_validated_against_impl': st.n.get('transitions', 0),
        'exhaustive': True,
        'rule': 'state = rational value or NaN; transition = one Num operation / observer; result compared with '
                'Fraction via == against from_big_num of the canonical and of a non-reduced spelling, is_pos/is_nan, '
                'canonical text',
        'scope': {'distinct_values_incl_nan': nvals, 'ordered_pairs': st.n.get('pairs', 0),
                  'size_ladder_grid': {'values': nvals2, 'limbs': '4, 9, 17' if tier == 'quick' else '4..33',
                                       'note': 'second grid, all ordered pairs, sign/NaN observers; canonical text compared for results up to 1200 bits'},
                  'numerators_abs': [str(p) for p in P_ABS], 'denominators': [str(q) for q in Q_SET],
                  'ops': ['add', 'mul', '+=', '*=', 'neg', 'minus', 'flip', 'floor', 'is_pos', 'is_nan', 'Display',
                          'new', 'from_num', 'from_big_num'],
                  'closure': {'seeds': len(seeds), 'depth1_new': st.n.get('closure_values_depth1', 0),
                              'depth2_new': st.n.get('closure_values_depth2', 0)}},
        'distinct_outcomes': len(st.sets.get('outcomes', ())),
        'samples': [{'op': 'add', 'a': '-3/4', 'b': '1/4', 'expected': '-1/2'},
                    {'op': 'new', 'up': -6, 'down': 4, 'expected': '-3/2'},
                    {'op': 'mul', 'a': '4294967295/4294967296', 'b': 'NaN', 'expected': R.NAN_TEXT}],
    }
    return finish(cov, st)


def _c06_misc(kind, pairs, seeds, depth2):
    if kind == 'unary':
        return c06_unary(pairs)
    return num_closure('C06', seeds, depth2, roundtrip=False)


# ------------------------------------------------------------------ C07

CMP_EXTRA = [(1, 2), (1, 3), (2, 3), (3, 4), (-1, 2), (-1, 3), (-2, 3), (-3, 4), (5, 1), (10, 1), (7, 2), (-7, 2),
             (65, 1), (3, 2), (-3, 2), (1 << 31, 1), ((1 << 31) - 1, 1), (1, 1 << 31)]
CALC_COUNTS = [0, 1, 2, 3, 5, 7, 10, (1 << 31) - 1]
CALC_AREAS = ['♥?♡', '♥!♡', '?♡', '♥?', '!', '♥?💕!♡', '♥!💕?♡', '♥?💕?♡', '♥!💕!♡', '♥!?♡!💕', '♥', '']


@guard_task('C07', 'num')
def c07_rows(pairs, rows):
    st = Stats()
    sh = shim()
    vals = load_rationals(sh, st, 'C07', pairs, check_ctor=False)
    n0 = len(vals)
    # more representations of the same values: a non-reduced spelling through the constructor, and live results of
    # additions / multiplications (x + 0, x * 1, (x + y) - y ...): comparison must not depend on how a value was made
    extra = []
    reqs = []
    zero = next(k for k, v in enumerate(vals) if v == 0)
    base_idx = sorted(set([k for k, v in enumerate(vals) if v is not None][:: max(1, n0 // 40)])
                      | set(k for k, v in enumerate(vals) if v is not None and abs(v) <= 1 and v.denominator <= 2))
    for k in base_idx:
        v = vals[k]
        r = n0 + len(extra)
        reqs += [('num', 'bset', 0, R.lit(v.numerator * 6)), ('num', 'bset', 1, R.lit(v.denominator * 6)), ('num', 'nbig', r, 0, 1)]
        extra.append(v)
        for j in base_idx[:12]:
            w = vals[j]
            r = n0 + len(extra)
            reqs += [('num', 'nop', 'add', k, j, 80000), ('num', 'nun', 'neg', j, 80001), ('num', 'nop', 'add', 80000, 80001, r)]
            extra.append(v)            # (v + w) - w
            if w != 0:
                r = n0 + len(extra)
                reqs += [('num', 'nop', 'mul', k, j, 80000), ('num', 'nun', 'flip', j, 80001), ('num', 'nop', 'mul', 80000, 80001, r)]
                extra.append(v)        # (v * w) / w
    for k, v in enumerate(vals[:n0]):
        if v is None or v == 0:
            continue
        r = n0 + len(extra)
        reqs += [('num', 'nun', 'neg', k, 80001), ('num', 'nop', 'add', k, 80001, r)]
        extra.append(Fraction(0))      # v + (-v)
        if k % 3 == 0:
            r = n0 + len(extra)
            reqs += [('num', 'nop', 'mul', zero, k, r)]
            extra.append(Fraction(0))  # 0 * v
    sh.batch(reqs)
    vals = vals + extra
    if rows and rows[0] == 0:
        rows = list(rows) + list(range(n0, len(vals), 5))
    for i in rows:
        a = vals[i]
        st.sample({'cmp': [R.num_text(a), R.num_text(vals[(i * 11 + 2) % len(vals)])]})
        reqs = [('num', 'ncmp', i, j) for j in range(len(vals))]
        resps = sh.batch(reqs)
        for b, resp in zip(vals, resps):
            st.inc('transitions')
            o = R.n_cmp(a, b)
            f = resp.split(' ')
            ok = len(f) == 2 and f[1] == o
            if ok and a is not None and b is not None and f[0] != ('1' if a == b else '0'):
                ok = False
            st.add('outcomes', f[-1])
            if not ok:
                st.violate(Violation('C07', 'num', 'num:cmp', {'kind': 'num_cmp', 'a': R.num_text(a), 'b': R.num_text(b)},
                                     'order %s, == %s' % (o, a == b), resp))
        st.inc('pairs', len(vals))
    return st


def eval_area(tree, count, pops):
    """reference evaluation of an area tree; pops = list of values popped in order (then NaN).
    Returns (leaf, number_of_pops)."""
    n = 0
    while isinstance(tree, tuple):
        v = pops[n] if n < len(pops) else None
        n += 1
        if tree[0] == '?':
            left = v is not None and v < count
        else:
            left = v is not None and v == count
        tree = tree[1] if left else tree[2]
    return tree, n


def leaf_code(leaf):
    return 0 if leaf is None else 2 + refparse.HEARTS.index(leaf)


@guard_task('C07', 'num')
def c07_calc(pairs):
    st = Stats()
    sh = shim()
    vals = load_rationals(sh, st, 'C07', pairs, check_ctor=False)
    # interesting popped values: those near the counts plus the alphabet extremes
    idx = [k for k, v in enumerate(vals) if v is None or abs(v) <= 11 or v.denominator != 1 or abs(v) >= (1 << 31) - 2]
    reqs = []
    meta = []
    for area in CALC_AREAS:
        tree = refparse.area_tree(list(area))
        prog = hx('형' + area)
        depth = 2 if area.count('?') + area.count('!') >= 2 else 1
        for cnt in CALC_COUNTS:
            if depth == 1:
                combos = [(i,) for i in idx]
            else:
                small = [k for k in idx if vals[k] is None or (abs(vals[k]) <= 11)]
                combos = [(i, j) for i in small for j in small]
            for c in combos:
                pops = [vals[k] for k in c]
                leaf, n = eval_area(tree, cnt, pops)
                reqs.append(('num', 'calc', prog, cnt) + tuple(c))
                meta.append((area, cnt, pops, '%d %d' % (leaf_code(leaf), n)))
    resps = sh.batch(reqs)
    for (area, cnt, pops, exp), resp in zip(meta, resps):
        st.inc('transitions')
        st.add('outcomes', resp)
        if resp != exp:
            st.violate(Violation('C07', 'num', 'area:calc',
                                 {'kind': 'calc', 'area': area, 'count': cnt, 'pops': [R.num_text(p) for p in pops]},
                                 exp, resp))
    st.inc('calc_cases', len(reqs))
    return st


def _c07_task(kind, pairs, rows):
    return c07_rows(pairs, rows) if kind == 'rows' else c07_calc(pairs)


def run_c07(tier):
    TIER[0] = tier
    st = Stats()
    pairs = rat_alphabet(tier) + CMP_EXTRA
    if tier != 'quick':
        pairs = pairs + [(p, q) for p in range(-12, 13) for q in (1, 2, 3, 5, 7)]
    nvals = len(set(Fraction(p, q) for p, q in pairs)) + 1
    chunk = 8
    tasks = [('rows', pairs, list(range(i, min(i + chunk, nvals)))) for i in range(0, nvals, chunk)]
    tasks.append(('calc', pairs, None))
    pairs2 = ladder_rationals(tier) + near_ties()
    nvals2 = len(set(Fraction(p, q) for p, q in pairs2)) + 1
    tasks += [('rows', pairs2, list(range(i, min(i + 8, nvals2)))) for i in range(0, nvals2, 8)]
    collect(st, pmap(_c07_task, tasks))
    cov = {
        'states': nvals,
        'transitions': st.n.get('transitions', 0),
        'traces_validated_against_impl': st.n.get('transitions', 0),
        'exhaustive': True,
        'rule': 'state = rational value or NaN; transition = partial_cmp/== on an ordered pair, or one area::calc '
                'evaluation (area shape x count x popped values); oracle = Fraction order, unordered iff NaN involved',
        'scope': {'distinct_values_incl_nan': nvals, 'ordered_pairs': st.n.get('pairs', 0),
                  'size_ladder_and_near_tie_grid_values': nvals2,
                  'calc_cases': st.n.get('calc_cases', 0), 'calc_counts': CALC_COUNTS, 'calc_areas': CALC_AREAS},
        'distinct_outcomes': sorted(st.sets.get('outcomes', ()))[:40],
        'samples': [{'cmp': ['5', '10'], 'expected': 'L'}, {'cmp': ['1/2', '1/3'], 'expected': 'G'},
                    {'calc': {'area': '♥?♡', 'count': 10, 'pops': ['5']}, 'expected': 'left (♥)'}],
    }
    return finish(cov, st)


# ------------------------------------------------------------------ C09

@guard_task('C09', 'num')
def c09_base(base, values):
    st = Stats()
    sh = shim()
    reqs = []
    for v in values:
        reqs.append(('num', 'bset', 0, R.lit(v)))
        reqs.append(('num', 'bbase', 0, base))
    resps = sh.batch(reqs)
    st.sample({'base': base, 'value': str(values[len(values) // 2]), 'text': R.to_base(values[len(values) // 2], base)})
    for k, v in enumerate(values):
        st.inc('transitions')
        resp = resps[2 * k + 1]
        exp = '%s 1 1' % R.to_base(v, base)
        if resp != exp:
            st.violate(Violation('C09', 'num', 'big:base', {'kind': 'big_base', 'base': base, 'value': str(v)}, exp, resp))
    # reading conventional text that was not produced by the implementation
    reqs = []
    meta = []
    for v in values[:: max(1, len(values) // 60)]:
        t = R.to_base(v, base)
        reqs.append(('num', 'bstr', 0, base, t))
        meta.append((v, t))
        reqs.append(('num', 'bchk', 0, R.lit(v)))
        meta.append((v, None))
    resps = sh.batch(reqs)
    for (v, t), resp in zip(meta, resps):
        st.inc('transitions')
        if t is None:
            exp = '1 1 %d %d %d' % (1 if v >= 0 else 0, 1 if v == 0 else 0, abs(v) & 0xFFFFFFFF)
            if resp != exp:
                st.violate(Violation('C09', 'num', 'big:from_string_base',
                                     {'kind': 'big_from_string', 'base': base, 'value': str(v)}, exp, resp))
        elif resp.startswith('ERR') or resp.startswith('PANIC'):
            st.violate(Violation('C09', 'num', 'big:from_string_base',
                                 {'kind': 'big_from_string', 'base': base, 'value': str(v)}, 'accepted', resp))
    # values reached by arithmetic (not only by from_vec) are rendered conventionally too: cancellation to zero
    reqs = []
    for x in (5, base, (1 << 32) + 1, (1 << 64) - 1):
        reqs += [('num', 'bset', 0, R.lit(-x)), ('num', 'bset', 1, R.lit(x)), ('num', 'bop', 'add', 0, 1, 2, '0'),
                 ('num', 'bbase', 2, base),
                 ('num', 'bset', 1, R.lit(-x)), ('num', 'bop', 'sub', 0, 1, 2, '0'), ('num', 'bbase', 2, base),
                 ('num', 'bset', 0, R.lit(-2 * x)), ('num', 'bset', 1, R.lit(x)), ('num', 'bop', 'rem', 0, 1, 2, '0'),
                 ('num', 'bbase', 2, base),
                 ('num', 'bset', 0, R.lit(-x)), ('num', 'bset', 1, R.lit(3 * x)), ('num', 'bop', 'add', 0, 1, 2, R.lit(2 * x)),
                 ('num', 'bbase', 2, base)]
    resps = sh.batch(reqs)
    for r, resp in zip(reqs, resps):
        if r[1] != 'bbase':
            continue
        st.inc('transitions')
        if not (resp == '0 1 1' or (resp.endswith(' 1 1') and not resp.startswith('0') and not resp.startswith('-'))):
            st.violate(Violation('C09', 'num', 'big:base:arith-result', {'kind': 'big_base_arith', 'base': base},
                                 'conventional text of the arithmetic result (0, or a positive numeral)', resp))
    # characters outside 0-9A-Z (and a sign anywhere but in front) must be rejected, never mis-read
    bad = ['1a', '1 ', ' 1', '+1', '1.0', '1/2', '1-', '٣', '１', '1_0']
    resps = sh.batch([('num', 'bstr', 0, base, t) for t in bad])
    for t, resp in zip(bad, resps):
        st.inc('transitions')
        if not resp.startswith('ERR'):
            st.violate(Violation('C09', 'num', 'big:from_string_base:accepts',
                                 {'kind': 'big_reject', 'base': base, 'text': t}, 'rejected (ParseError)', resp))
    st.inc('base_values', len(values))
    return st


def c09_values(base, tier):
    s = set(big_values(2 if tier == 'quick' else 3, L5))
    kmax = 40 if tier == 'quick' else 80
    for k in range(0, kmax + 1, 1 if tier != 'quick' else 3):
        for d in (-1, 0, 1):
            s.add(base ** k + d)
            s.add(-(base ** k + d))
    # digit counts and limb counts at which a chunked conversion would switch
    for k in ((63, 64, 65, 128, 129) if tier == 'quick' else (31, 32, 33, 63, 64, 65, 127, 128, 129, 255, 256, 257)):
        for d in (-1, 0, 1):
            s.add(base ** k + d)
            s.add(-(base ** k + d))
    for m in ladder_magnitudes([4, 8, 9, 16, 17] if tier == 'quick' else [x for x in LADDER_T if x <= 65]):
        s.add(m)
        s.add(-m)
    for d in range(base):
        for rep in (1, 2, 9, 33):
            n = int(R.DIGITS[d] * rep, base)
            s.add(n)
            s.add(-n)
    return sorted(s, key=lambda x: (abs(x), x < 0))


def fragile_rationals():
    """lowest-terms p/q where one part has an interior zero limb and the other is at least two limbs longer"""
    from math import gcd
    F = (1 << 32) - 1
    zs = [R.from_limbs(v) for v in ([F, 0, 1], [5, 0, 3], [F, 0, F], [1, 0, 0, 1], [0xf2e2054d, 0, 0x25795c19], [F, 0, 0, F])]
    ls = [R.from_limbs(v) for v in ([F] * 5, [1, F, F, F, F], [F, F, F, F, 1], [7, 0, F, F, F, 3], [F] * 6,
                                    [0x9abcdef1, 0x12345678, F, 0x80000000, 0x7fffffff], [3, F, 2, F, 1, F])]
    out = []
    for z in zs:
        for l in ls:
            for (p, q) in ((l, z), (z, l), (-l, z), (l * 3 + 1, z), (l, z * 7 + 2)):
                g = gcd(p, q)
                out.append(Fraction(p // g, q // g))
    return out


@guard_task('C09', 'num')
def c09_fragile(vals):
    st = Stats()
    sh = shim()
    reqs = []
    for v in vals:
        reqs += [('num', 'bset', 0, R.lit(v.numerator)), ('num', 'bset', 1, R.lit(v.denominator)), ('num', 'nbig', 0, 0, 1),
                 ('num', 'nobs', 0), ('num', 'nrt', 0), ('num', 'nstr', 1, hx(R.num_text(v))), ('num', 'nobs', 1)]
    resps = sh.batch(reqs)
    for k, v in enumerate(vals):
        st.inc('transitions', 3)
        obs, rt, back = resps[7 * k + 3], resps[7 * k + 4], resps[7 * k + 6]
        exp = exp_num_obs(v)
        if obs != exp or rt != '%s|1|1|0' % R.num_text(v) or back != exp:
            st.violate(Violation('C09', 'num', 'num:roundtrip:multi-limb', {'kind': 'num_fragile', 'value': R.num_text(v)},
                                 exp, '%s ; %s ; %s' % (obs, rt, back)))
    st.inc('closure_total', len(vals))
    return st


def _c09_task(kind, a, b):
    if kind == 'fragile':
        return c09_fragile(a)
    if kind == 'base':
        return c09_base(a, c09_values(a, b))
    return num_closure('C09', a, b, roundtrip=True)


def run_c09(tier):
    TIER[0] = tier
    st = Stats()
    tasks = [('base', b, tier) for b in range(2, 37)]
    tasks.append(('closure', CLOSURE_SEEDS if tier == 'quick' else CLOSURE_SEEDS_T, True))
    fr = fragile_rationals() + [Fraction(p, q) for p, q in ladder_rationals(tier)]
    for i in range(0, len(fr), 30):
        tasks.append(('fragile', fr[i:i + 30], None))
    collect(st, pmap(_c09_task, tasks))
    cov = {
        'states': st.n.get('base_values', 0) + st.n.get('closure_total', 0),
        'transitions': st.n.get('transitions', 0),
        'traces_validated_against_impl': st.n.get('transitions', 0),
        'exhaustive': True,
        'rule': 'state = integer x base, or rational/NaN; transition = to_string_base + from_string_base (text must be '
                'the conventional rendering, value must come back, text must be stable) or Num to_string/from_string '
                'on every value reached by closure over add/mul/neg/flip from the seeds',
        'scope': {'bases': '2..36', 'integer_cases': st.n.get('base_values', 0),
                  'rational_values_round_tripped': st.n.get('closure_total', 0)},
        'samples': [{'value': str(36 ** 3 - 1), 'base': 36, 'text': 'ZZZ'}, {'value': '-3/4', 'text': '-3/4'},
                    {'value': 'NaN', 'text': R.NAN_TEXT}],
    }
    return finish(cov, st)


# ------------------------------------------------------------------ replay

def replay(case):
    """re-run one recorded case; returns (expected, observed) texts"""
    sh = shim()
    k = case['kind']
    if k == 'big_binop' and case.get('where') == 'closure':
        # operands were live results of earlier operations: rebuild them by re-running the (deterministic) closure
        TIER[0] = case.get('tier', 'quick')
        st = c05_closure(c05_seeds(TIER[0]), True)
        for v in st.violations:
            if (v.case['op'], v.case['a'], v.case['b']) == (case['op'], case['a'], case['b']):
                return v.expected, v.observed
        hit = [v for v in st.violations if v.case['op'] == case['op']]
        if hit:
            return hit[0].expected, hit[0].observed
        return 'closure clean', 'closure clean'
    if k == 'num_closure':
        TIER[0] = case.get('tier', 'quick')
        seeds = CLOSURE_SEEDS if TIER[0] == 'quick' else CLOSURE_SEEDS_T
        st = num_closure(case.get('prop', 'C06'), seeds, True, roundtrip=True)
        for v in st.violations:
            if v.case.get('op') == case['op'] and v.case.get('a') == case['a'] and v.case.get('b') == case.get('b') \
                    and v.case.get('observer') == case.get('observer'):
                return v.expected, v.observed
        return 'closure clean', 'closure clean'
    if k == 'big_binop':
        a, b = int(case['a']), int(case['b'])
        e = big_expected(case['op'], a, b)
        sh.call('num', 'bset', 0, R.lit(a))
        sh.call('num', 'bset', 1, R.lit(b))
        return exp_big_obs(e), sh.call('num', 'bop', case['op'], 0, 1, 2, R.lit(e), 'd')
    if k == 'big_cmp':
        a, b = int(case['a']), int(case['b'])
        sh.call('num', 'bset', 0, R.lit(a))
        sh.call('num', 'bset', 1, R.lit(b))
        return ('%d %s' % (a == b, 'L' if a < b else ('E' if a == b else 'G')), sh.call('num', 'bcmp', 0, 1))
    if k == 'big_single':
        if case['op'] in ('new', 'new_eq'):
            return exp_big_obs(int(case['arg'])), sh.call('num', 'bnew', 0, case['arg'])
        return 'see case', sh.call('num', 'bset', 0, case['arg'])
    if k == 'num_ctor':
        p, q = case['pq']
        v = Fraction(int(p), int(q))
        if case['ctor'] == 'new':
            return exp_num_obs(v), sh.call('num', 'nnew', 0, p, q)
        if case['ctor'] == 'from_num':
            return exp_num_obs(v), sh.call('num', 'nnum', 0, p)
        sh.call('num', 'bset', 0, R.lit(int(p)))
        sh.call('num', 'bset', 1, R.lit(int(q)))
        return exp_num_obs(v), sh.call('num', 'nbig', 0, 0, 1)

    def loadn(reg, txt):
        v = R.parse_num_text(txt)
        if v is None:
            sh.call('num', 'nnan', reg)
        else:
            sh.call('num', 'bset', 0, R.lit(v.numerator))
            sh.call('num', 'bset', 1, R.lit(v.denominator))
            sh.call('num', 'nbig', reg, 0, 1)
        return v
    if k in ('num_binop', 'num_closure') and case.get('b') is not None:
        a = loadn(0, case['a'])
        b = loadn(1, case['b'])
        e = R.n_add(a, b) if case['op'] == 'add' else R.n_mul(a, b)
        first = sh.call('num', 'nop', case['op'], 0, 1, 2)
        obs = case.get('observer')
        if obs == 'nop':
            return '%d %d 1' % (1 if (e is not None and e >= 0) else 0, 1 if e is None else 0), first
        if obs == 'nchk' and e is not None:
            return _nchk_expect(e), sh.call('num', 'nchk', 2, *spellings(e))
        if obs == 'nrt':
            return 'see: text round trip inside the closure (re-run the check)', ''
        return exp_num_obs(e), sh.call('num', 'nobs', 2)
    if k in ('num_unary', 'num_closure'):
        a = loadn(0, case['a'])
        parts = case['op'].split(':')
        op, how = parts[0], (parts[1] if len(parts) > 1 else '')
        if k == 'num_closure':
            how = {'nchk': 'eq', 'obs': '', 'nop': ''}.get(case.get('observer'), 'unknown')
        if op in ('neg', 'minus', 'flip') and how in ('', 'eq', 'twice'):
            e = R.n_neg(a) if op != 'flip' else R.n_flip(a)
            first = sh.call('num', 'nun', op, 0, 1)
            if how == 'eq' and e is not None:
                return _nchk_expect(e), sh.call('num', 'nchk', 1, *spellings(e))
            if how == 'twice':
                e2 = R.n_neg(e) if op != 'flip' else R.n_flip(e)
                return exp_num_obs(e2), sh.call('num', 'nun', op, 1, 2)
            return exp_num_obs(e), first
        if op == 'floor':
            return exp_big_obs(R.floor_nonneg(a)), sh.call('num', 'nfloor', 0)
        if op == 'obs':
            return exp_num_obs(a), sh.call('num', 'nobs', 0)
        return 'see: this observer is not replayed on its own (%s)' % case['op'], ''
    if k == 'num_cmp':
        a = loadn(0, case['a'])
        b = loadn(1, case['b'])
        return R.n_cmp(a, b), sh.call('num', 'ncmp', 0, 1)
    if k == 'calc':
        pops = [loadn(i, t) for i, t in enumerate(case['pops'])]
        tree = refparse.area_tree(list(case['area']))
        leaf, n = eval_area(tree, case['count'], pops)
        return ('%d %d' % (leaf_code(leaf), n),
                sh.call('num', 'calc', hx('형' + case['area']), case['count'], *range(len(pops))))
    if k == 'big_base':
        v = int(case['value'])
        sh.call('num', 'bset', 0, R.lit(v))
        return '%s 1 1' % R.to_base(v, case['base']), sh.call('num', 'bbase', 0, case['base'])
    if k == 'big_from_string':
        v = int(case['value'])
        return exp_big_obs(v), sh.call('num', 'bstr', 0, case['base'], R.to_base(v, case['base']))
    if k == 'num_const':
        st = c06_unary(rat_alphabet('quick'))
        for v in st.violations:
            if v.case.get('kind') == 'num_const' and v.case.get('op') == case.get('op'):
                return v.expected, v.observed
        return 'constant as defined', 'constant as defined'
    if k == 'nan_operand':
        st = c06_unary(rat_alphabet('quick'))
        for v in st.violations:
            if v.case.get('kind') == 'nan_operand':
                return v.expected, v.observed
        return 'NaN absorbing', 'NaN absorbing'
    if k == 'num_fragile':
        v = R.parse_num_text(case['value'])
        st = c09_fragile([v])
        if st.violations:
            return st.violations[0].expected, st.violations[0].observed
        return 'round trip ok', 'round trip ok'
    if k == 'big_base_arith':
        sh.call('num', 'bset', 0, R.lit(-5))
        sh.call('num', 'bset', 1, R.lit(5))
        sh.call('num', 'bop', 'add', 0, 1, 2, '0')
        return '0 1 1', sh.call('num', 'bbase', 2, case['base'])
    if k == 'big_reject':
        return 'ERR ParseError', sh.call('num', 'bstr', 0, case['base'], case['text'])
    if k == 'num_roundtrip':
        sh.call('num', 'nnan', 0)
        return 'NaN round trip', sh.call('num', 'nrt', 0)
    if k == 'shim_request':
        return 'see: request depends on register state (re-run the check)', ''
    return 'unknown case kind', ''


RUNNERS = {'C05': run_c05, 'C06': run_c06, 'C07': run_c07, 'C09': run_c09}
