"""Engine `optdiff`: optimisation levels 1 and 2 against level 0 through the real run::run (C02)."""
import itertools
import os
import sys

from . import eng_exec
from .common import strip_log_lines, WORK, Stats, Violation, pmap, shim, finish, collect, hang_storm

B = 3000

G16 = ['형', '형.', '형..', '항.', '항...', '하앙.', '흐읏.', '흐읍...', '흑', '흑.', '흑....', '형.♥', '항.♥', '형..?', '형..?♥', '형.♡']
G24 = G16 + ['항..', '흣...', '핫...', '흑..', '항....♥', '형....!♥', '흐읏....', '형...♡']
S24 = [k + d + h for k in ('형', '항', '흑') for d in ('.', '...', '....', '.....') for h in ('', '♥')]
F12 = ['형.', '형....♥', '형.....♥', '항.', '항.♥', '항....', '항....♥', '항.....', '항.....♥', '흑....', '흑....♥', '흑.....']
S3 = ['형.', '형....♥', '항.', '항....', '항.....♥', '항.......', '흑....', '흑....♥', '흑.....', '흑.......', '흑.......♥', '형.......♥']
OBSERVERS = ['', '항. 항.', '하앙.', '흑. 항', '흑.. 항']


def strip_banner(out):
    return strip_log_lines(out)


def split_diag(err):
    """(program's stderr text, diagnostic) -- the diagnostic starts at the last '[error]'"""
    i = err.rfind(b'[error]')
    if i < 0:
        return err, b''
    return err[:i], err[i:]


class RunObs(object):
    __slots__ = ('status', 'out', 'err', 'diag', 'kind')

    def __init__(self, r):
        self.status = r.status
        self.out = strip_banner(r.out)
        self.err, self.diag = split_diag(r.err)
        if b'step budget exhausted' in self.diag:
            self.kind = 'budget'
        elif self.diag:
            self.kind = 'error'
        elif r.status in ('exit=0', 'exit=1'):
            self.kind = 'end'
        else:
            self.kind = 'crash'

    def text(self):
        import hashlib

        def show(b):
            # long texts: head, length and digest (two different texts never render the same)
            return repr(b) if len(b) <= 300 else '%r...[%d bytes, md5 %s]' % (b[:300], len(b), hashlib.md5(b).hexdigest()[:12])
        return '%s %s out=%s err=%s diag=%r' % (self.kind, self.status, show(self.out), show(self.err), self.diag[:120])


def first_line(b):
    return b.split(b'\n', 1)[0]


def prefix_compatible(a, b):
    return a.startswith(b) or b.startswith(a)


def compare_levels(sh, path, inp, levels=(1, 2), budget=B):
    """returns (list of (level, klass, expected, observed)), kind of the level-0 run, inconclusive count"""
    bad = []
    inconclusive = 0
    o0 = RunObs(sh.run(path, 0, budget, inp))
    for lv in levels:
        ol = RunObs(sh.run(path, lv, budget, inp))
        if ol.kind == 'crash':
            bad.append((lv, 'crash', o0.text(), ol.text()))
            continue
        if o0.kind == 'end':
            if (ol.status, ol.out, ol.err, ol.kind) != (o0.status, o0.out, o0.err, 'end'):
                bad.append((lv, 'differs', o0.text(), ol.text()))
        elif o0.kind == 'error':
            ok = (ol.kind == 'error' and ol.status == o0.status and first_line(ol.diag) == first_line(o0.diag)
                  and o0.out.startswith(ol.out) and o0.err.startswith(ol.err))
            if not ok:
                bad.append((lv, 'error-differs', o0.text(), ol.text()))
        elif o0.kind == 'budget':
            if ol.kind == 'budget':
                if not (prefix_compatible(o0.out, ol.out) and prefix_compatible(o0.err, ol.err)):
                    bad.append((lv, 'prefix', o0.text(), ol.text()))
            else:
                # the optimised run ended: level 0 must end the same way given more steps
                o0b = RunObs(sh.run(path, 0, budget * 8, inp))
                if o0b.kind == 'budget':
                    inconclusive += 1
                    if not (prefix_compatible(o0b.out, ol.out) and prefix_compatible(o0b.err, ol.err)):
                        bad.append((lv, 'prefix', o0b.text(), ol.text()))
                elif o0b.kind == 'end':
                    if (ol.status, ol.out, ol.err, ol.kind) != (o0b.status, o0b.out, o0b.err, 'end'):
                        bad.append((lv, 'differs', o0b.text(), ol.text()))
                else:
                    ok = (ol.kind == 'error' and ol.status == o0b.status and first_line(ol.diag) == first_line(o0b.diag)
                          and o0b.out.startswith(ol.out) and o0b.err.startswith(ol.err))
                    if not ok:
                        bad.append((lv, 'error-differs', o0b.text(), ol.text()))
        else:
            bad.append((0, 'level0-crash', 'level 0 runs', o0.text()))
            break
    return bad, o0, inconclusive


def programs_task(family, texts, inputs, budget=B):
    st = Stats()
    sh = shim()
    path = os.path.join(WORK, 'opt-%d.hyeong' % os.getpid())
    for text in texts:
        if st.n.get('hangs', 0) >= 3 or hang_storm():
            hang_storm(raise_it=st.n.get('hangs', 0) >= 3)
            st.inc('skipped_after_hangs')
            continue        # three runs of this task ended in the 20 s alarm: the rest would only add hours of the same
        with open(path, 'w', encoding='utf-8') as f:
            f.write(text)
        for inp in inputs:
            bad, o0, inc = compare_levels(sh, path, inp.encode('utf-8'), budget=budget)
            if any(klass == 'crash' and 'sig=14' in obs for _, klass, _, obs in bad):
                st.inc('hangs')
            st.inc('cases')
            st.inc('runs', 3)
            st.inc('inconclusive', inc)
            st.add('kinds', o0.kind + ':' + o0.status)
            st.add('outputs', o0.out[:64])
            if len(st.samples) < 3 and len(text) < 200:
                st.sample({'prog': text, 'stdin': inp, 'level0': '%s %s' % (o0.kind, o0.status), 'stdout': o0.out[:40].decode('utf-8', 'replace')})
            for lv, klass, exp, obs in bad:
                st.violate(Violation('C02', 'optdiff', '%s:L%d:%s' % (family, lv, klass),
                                     {'kind': 'optdiff', 'prog': text, 'stdin': inp, 'level': lv}, exp, obs))
    st.inc('programs', len(texts))
    return st


def both_stream_loops():
    """counted loops whose body writes to standard output and then to standard error"""
    out = []
    for K in (2, 5, 40, 120):
        out.append(loop_program(K).replace('흣. 흑...', '흣. 형.. 항.. 흑...'))
        out.append('형... 항. ' + loop_program(K).replace('흣. 흑...', '형.. 항.. 흣. 흑...') + ' 형... 항..')
    return out


SPELLINGS = [(None, []), (0, ['-O0']), (1, ['-O1']), (2, ['-O2']), (2, ['-O', '2']), (1, ['--optimize', '1']), (2, ['--optimize=2']),
             (2, ['AFTER', '-O2']), (0, ['AFTER', '--optimize', '0']),
             # standard output on a (pseudo) terminal, standard error elsewhere
             (2, ['PTY', '-O2']), (0, ['PTY', '-O0']), (None, ['PTY'])]


def _render(r):
    import hashlib
    o, e = r[1] or b'', r[2]
    return 'status %r out ...%r [%d bytes, md5 %s] err ...%r [%d bytes, md5 %s]' % (
        r[0], o[-120:], len(o), hashlib.md5(o).hexdigest()[:12], e[-120:], len(e), hashlib.md5(e).hexdigest()[:12])


def cli_task(texts, only=None):
    """the real binary, the level given in every spelling the command line accepts (and not at all): same behaviour as -O0"""
    import subprocess
    from .common import HYEONG, child_setup, run_pty, pty_available
    st = Stats()
    have_pty = pty_available()
    st.add('pty', 'available' if have_pty else 'NOT available: terminal runs left out')
    path = os.path.join(WORK, 'cli-opt-%d.hyeong' % os.getpid())
    env = dict(os.environ, HYEONG_VERIF_STEPS=str(4 * B), RUST_BACKTRACE='0')

    def run(opts):
        if opts[:1] == ['PTY']:
            rc, o, e = run_pty([HYEONG, 'run'] + opts[1:] + ['--color', 'never', path], b'ab\nc', env=env, timeout=60)
            return rc, strip_banner(o), e
        if opts[:1] == ['AFTER']:
            args = [HYEONG, 'run', '--color', 'never', path] + opts[1:]
        else:
            args = [HYEONG, 'run'] + opts + ['--color', 'never', path]
        try:
            p = subprocess.run(args, input=b'ab\nc', stdout=subprocess.PIPE, stderr=subprocess.PIPE, env=env, timeout=60,
                               preexec_fn=child_setup)
            return p.returncode, strip_banner(p.stdout), p.stderr
        except subprocess.TimeoutExpired:
            return 'timeout', b'', b''
    hangs = 0
    for text in texts:
        if hangs >= 3 or hang_storm():
            hang_storm(raise_it=hangs >= 3)
            st.inc('skipped_after_hangs')
            continue            # three runs ran into the 60 s limit: more of the same would only cost hours
        with open(path, 'w', encoding='utf-8') as f:
            f.write(text)
        ref = run(['-O0'])
        for lv, opts in SPELLINGS:
            if opts[:1] == ['PTY'] and not have_pty:
                continue
            if only is not None and opts != only:
                continue
            if hangs >= 3:
                break
            got = run(opts)
            if got[0] == 'timeout':
                hangs += 1
            st.inc('runs')
            st.inc('cases')
            same = got == ref
            if not same and b'[error]' in ref[2] and b'step budget' not in ref[2]:
                # an output-encoding error: same status and diagnostic, earlier text may be withheld (C02)
                (re_, rd), (ge, gd) = split_diag(ref[2]), split_diag(got[2])
                same = (got[0] == ref[0] and first_line(gd) == first_line(rd) and (ref[1] or b'').startswith(got[1] or b'')
                        and re_.startswith(ge))
            if b'step budget' in ref[2] or b'step budget' in got[2]:
                same = True         # only terminating programs are in this family; a cut run says nothing here
            if not same:
                st.violate(Violation('C02', 'optdiff', 'cli:%s' % (' '.join(opts) or 'no-flag'),
                                     {'kind': 'cli', 'prog': text, 'opts': opts},
                                     _render(ref), _render(got)))
        st.inc('programs')
    return st


def bodies(alphabet, maxlen):
    for n in range(0, maxlen + 1):
        for t in itertools.product(alphabet, repeat=n):
            yield ' '.join(t)


def dots(k):
    return '…' * (k // 3) + '.' * (k % 3)


def loop_program(K, op='!'):
    """prints 1..K as decimal text; K-1 backward jumps (K = 0: never terminates)"""
    return '형 흣%s💕 형. 하앙... 흣. 흑... 흣%s%s💕' % (dots(K), dots(K), op)


def budget_family(tier):
    out = []
    ks = list(range(0, 261)) if tier != 'quick' else (list(range(0, 12)) + list(range(95, 108)) + [150, 199, 200, 201, 260])
    prefixes = ['', '형... 항. ', '흑 항... 흑... ', '형... 항.. ']
    suffixes = ['', ' 항.', ' 형.... 항.']
    for K in ks:
        for p in prefixes:
            for s in suffixes:
                out.append(p + loop_program(K) + s)
    # two loops in sequence; loop whose label was registered inside the pre-executed prefix
    for K in (3, 99, 100, 101, 130):
        out.append(loop_program(K) + ' ' + loop_program(K).replace('💕', '💖') + ' 항.')
        out.append('흑 항... 흑... ' + loop_program(K) + ' 흑 항... 흑... 항.')
    return out


def bailout_family():
    out = []
    prints = ['', '형... 항. ', '형... 항.. ', '형... 항. 형.. 항.. ']
    selects = ['흑 ', '흑. ', '흑.. ', '형.. 흑. ', '형.. 흑.. ', '형.. 흑 ']
    poppers = ['항', '항...', '핫.', '흣.', '흡...', '흐읏...', '흑...', '형?', '형!', '형.?♥', '형..?', '하앙...', '형..!♥?♡', '형.♥']
    suffixes = ['', ' 형.. 항.', ' 흑... 형. 항.']
    for p in prints:
        for s in selects:
            for q in poppers:
                for x in suffixes:
                    out.append(p + s + q + x)
    # the select command itself carries the area that pops from the newly selected stack
    for p in prints:
        for s in ('흑?', '흑!♥', '흑.?', '흑.!', '흑..?', '흑..!♥', '형.. 흑.?', '형.. 흑..?♥', '형.. 흑?♥!♡', '형.. 흐윽.!'):
            for x in suffixes:
                out.append(p + s + x)
    # print, register a label, print again through the label (output captured then abandoned)
    # high stack indices (renumbering of sparse indices)
    d300, d200, d17 = '.' * 300, '.' * 200, '.' * 17
    out += ['형.. 흑%s 형... 항%s 흑%s 항. 흑%s 항. 항.' % (d300, d200, d200, d300),
            '형.. 흑%s 형... 흑%s 항. 흑%s 항.' % (d17, d300, d17),
            '형.. 항%s 형... 항%s 흑%s 항. 흑%s 항. 흑... 항.' % (d300, d17, d17, d300),
            '형.. 흑%s♥ 항. 형... 흑%s 형%s♥' % (d300, d17, d300)]
    out += ['항.♥ 형. 항.♥', '형. 항.♥ 형.. 항.♥ 항.', '흑. 형..?', '형... 항. 흑. 형..? 형.', '형.. 항.♥ 흑 항.♥']
    return out


def big(n_syl, n_dot):
    return '혀' + '어' * (n_syl - 2) + '엉' + '.' * n_dot


def _single(n):
    if n <= 3000:
        return '형' + '.' * n
    best = max(x for x in range(1, 3001) if n % x == 0)
    if best >= 2 and n // best <= 70000:
        return big(best, n // best)
    return None


def push_value(n):
    """program text that leaves exactly n on top of stack 3: one push, a product of two pushes, a decrement, or (for
    big values) Horner's scheme in base 65536"""
    t = _single(n)
    if t is not None:
        return t
    if n < (1 << 40):
        x = int(n ** 0.5)
        lo = max(2, x - 200000)
        while x >= lo:
            if n % x == 0 and _single(x) and _single(n // x):
                return '%s %s 하앗...' % (_single(x), _single(n // x))
            x -= 1
    if n < (1 << 17):
        return push_value(n + 1) + ' 형. 흣.... 하앙...'
    q, r = divmod(n, 65536)
    s = '%s %s 하앗...' % (push_value(q), big(256, 256))
    if r:
        s += ' %s 하앙...' % push_value(r)
    return s


def mixed_family():
    parts = {
        'P': '형... 항.', 'Q': '형... 항..', 'E1': big(216, 256) + ' 항.', 'E2': big(1088, 1024) + ' 항..', 'R': '흑 항... 흑...',
        'X0': '흑. 항', 'X1': '흑.. 항', 'L': loop_program(150), 'S': '형.. 항....♥ 흑.... 항.',
    }
    out = []
    keys = sorted(parts)
    for n in range(1, 4):
        for t in itertools.product(keys, repeat=n):
            if n == 3 and len(set(t)) < 2:
                continue
            out.append(' '.join(parts[k] for k in t))
    return out


_LABELFLOW = []


def labelflow_family():
    """label flow: a conditional command X that registers one of two labels on its first visit, a later command T that
    registers the other, and a (conditional) jumper J that returns to X after the value X tests has changed, so that X
    then jumps FORWARD to T.  Candidates are generated from small part sets and kept when the reference run (a) ends
    within 300 commands and performs at least one forward jump or one ♡ return, or (b) is one of every 7th of the remaining ones
    (loops, backward-only flows).  Exercises known-label jumps in both directions inside and outside the
    pre-executed prefix; terminating cases with fewer than 100 jumps stay entirely inside level-2 speculation."""
    if _LABELFLOW:
        return _LABELFLOW
    from . import refinterp as I
    from . import refparse as P
    import hashlib
    import json
    from .common import BUILD
    # the selection only depends on the reference model: cache it next to the build output
    h = hashlib.md5()
    for mod in (I, P, sys.modules[__name__]):
        h.update(open(mod.__file__, 'rb').read())
    cache = os.path.join(BUILD, 'cache-labelflow-%s.json' % h.hexdigest()[:12])
    if os.path.exists(cache):
        try:
            _LABELFLOW.extend(json.load(open(cache)))
            return _LABELFLOW
        except ValueError:
            pass
    pres = ['형..', '형....', '혀엉.. 흣...', '형.. 형....', '형.... 형..']
    xs = ['흑...♥?💕', '흑...💕?♥', '흑...♥!💕', '항...♥?💕']
    mids = ['', '형. 항.', '흣...', '형.. 항.', '항...♡?', '형♡']
    ts = ['흑...💕', '흑...♥', '항...💕']
    posts = ['', '형....', '형..', '흣...', '항...♡?', '항...?♡']
    js = ['흑...♥', '흑...💕', '흑...💘?♥', '흑...♥?💘', '흑...💘?💕', '항...♥?💘', '형...💘!♥',
          '항...♥?♡?', '항...♥!♡', '항...♡?♥', '흑...♥?♡', '항...💕?♡?']
    reads = ['', '흑 항... 흑... ']
    keep, rest = [], []
    for rd in reads:
        for pre in pres:
            for x in xs:
                for mid in mids:
                    for t in ts:
                        for post in posts:
                            for j in js:
                                text = ' '.join(w for w in (rd + pre, x, mid, t, post, j, '형. 항.') if w)
                                end, m, steps = I.run(P.parse(text), 'ab\nc', max_steps=300, horizon=256)
                                if end in ('end', 'exit0', 'exit1') and (m.fwd_jumps > 0 or m.returns > 0):
                                    keep.append(text)
                                else:
                                    rest.append(text)
    _LABELFLOW.extend(list(dict.fromkeys(keep + rest[::7])))
    try:
        os.makedirs(BUILD, exist_ok=True)
        with open(cache + '.tmp%d' % os.getpid(), 'w') as f:
            json.dump(_LABELFLOW, f, ensure_ascii=False)
        os.replace(cache + '.tmp%d' % os.getpid(), cache)
    except OSError:
        pass
    return _LABELFLOW


def bigarith_family():
    """programs whose values grow past 2^64 through repeated squaring with +1 / -1 steps (limbs with interior zeros,
    long carries), printed as decimal text: the interpreter's arithmetic on big values, end to end"""
    out = []
    seeds = [(1 << 32) - 1, 1 << 32, (1 << 32) + 1, 65535, 65537]
    steps = {'s': '흑... 하앗...', 'p': '형. 하앙...', 'm': '형. 흣.... 하앙...'}
    for v in seeds:
        for pat in itertools.product('pm', repeat=3):
            body = [push_value(v)]
            for c in pat:
                body.append(steps['s'])
                body.append(steps[c])
            body.append('흑... 하앗... 흣. 흣... 흣..')      # square once more, print it, and print it to stderr too
            out.append(' '.join(body))
    F = (1 << 32) - 1
    lefts = [(1 << 64) - 1, (1 << 96) - 1, F * (1 << 64) + F * (1 << 32) + 1]
    rights = [(1 << 64) + F, F * (1 << 64) + F, 3 * (1 << 64) + 5]          # limbs [F,0,1], [F,0,F], [5,0,3]
    for a in lefts:
        for b in rights:
            out.append('%s %s 하앗... 흣.' % (push_value(a), push_value(b)))
            out.append('%s %s 하앗... 흣.' % (push_value(b), push_value(a)))
            out.append('%s 흡... %s 하앗... 흣.' % (push_value(a), push_value(b)))       # b / a as a fraction in lowest terms
    return out


def sizecap_family():
    """values at the size up to which level 2 pre-executes arithmetic (63 limbs for an integer): the command that crosses
    it is left to run time, with everything before it already done - for each arithmetic command"""
    out = []
    for bits in (2014, 2015, 2016):
        p = push_value(1 << bits)
        for body in ('흑... 하앙...', '형.. 하앗...', '흑... 흐읏...', '형.. 흐읍...', '형... 흡... 하앗...'):
            out.append('%s %s 흣. 항. 항.' % (p, body))
            out.append('형.... 항. %s %s 흣. 형... 항..' % (p, body))
    return out


def volume_family():
    """pre-executed prefixes that write a lot (more than any internal buffer size) inside ONE top-level command"""
    wide = '흐' + '으' * 8998 + '윽'
    passbody = ' '.join(['형... 항.'] * 150)
    K = 80
    return ['%s %s.' % (big(5, 13), wide),                       # 9000 x 'A' on stdout from one command
            '%s %s..' % (big(5, 13), wide),                      # the same on stderr
            '%s %s. 형' % (big(5, 13), wide),
            '형 흣%s💕 %s 형. 하앙... 흣.... 흑... 흣%s!💕 형.. 항.' % (dots(K), passbody, dots(K)),   # 80 passes x 150 characters
            '흑 항... 흑... 형 흣%s💕 %s 형. 하앙... 흣.... 흑... 흣%s!💕' % (dots(K), passbody, dots(K))]


def with_observers(texts, observers):
    for t in texts:
        for o in observers:
            yield (t + ' ' + o).strip()


def chunks(seq, n):
    seq = list(seq)
    for i in range(0, len(seq), n):
        yield seq[i:i + n]


def run_c02(tier):
    st = Stats()
    tasks = []
    ins2 = ['', 'ab\nc']
    if tier == 'quick':
        gen = list(with_observers(bodies(G16, 3), ['', '항. 항.']))
        ren = list(with_observers(bodies(S24, 3), ['', '항.'])) + list(with_observers(bodies(F12, 4), ['']))
        ren3 = list(with_observers(bodies(S3, 3), ['', '항.']))
    else:
        gen = list(with_observers(bodies(G16, 3), OBSERVERS)) + list(with_observers(bodies(G24, 4), ['', '항. 항.']))
        ren = list(with_observers(bodies(S24, 4), ['', '항.'])) + list(bodies(F12, 5))
        ren3 = list(with_observers(bodies(S3, 4), ['', '항.']))
    for c in chunks(gen, 400):
        tasks.append(('general', c, ins2, 400))
    for c in chunks(ren, 800):
        tasks.append(('renumber', c, [''], 400))
    for c in chunks(ren3, 800):
        tasks.append(('renumber3', c, [''], 400))
    for c in chunks(bailout_family(), 200):
        tasks.append(('bailout', c, ['', 'ab\nc', '\n'], 400))
    for c in chunks(budget_family(tier), 40):
        tasks.append(('budget', c, ['ab\nc']))
    for c in chunks(mixed_family(), 60):
        tasks.append(('mixed', c, ['', 'ab\nc']))
    for c in chunks(bigarith_family(), 5):
        tasks.append(('bigarith', c, [''], 400))
    from .eng_compile import fam_highstack
    for c in chunks(fam_highstack(), 50):
        tasks.append(('highstack', c, ['ab\nc'], 400))
    for c in chunks(sizecap_family(), 3):
        tasks.append(('sizecap', c, [''], 1500))
    for c in chunks(volume_family(), 1):
        tasks.append(('volume', c, ['ab\nc'], 60000))
    lf = labelflow_family()
    for c in chunks(lf, 300):
        tasks.append(('labelflow', c, ['ab\nc'], 400))
    from . import scale
    sp = scale.scale_programs(tier)
    for c in chunks(sp, 3):
        tasks.append(('scale', c, ['ab\nc']))
    cur = eng_exec.curated_programs()
    cin = eng_exec.curated_inputs(2 if tier == 'quick' else 3)
    for name, text in cur:
        for c in chunks(cin, 16):
            tasks.append(('curated:' + name, [text], c))
    order = {'budget': 0, 'mixed': 1, 'curated': 2}
    tasks.sort(key=lambda t: order.get(t[0].split(':')[0], 5))
    cli = both_stream_loops() + [t for t in sp if True] + mixed_family()[::6] + fam_highstack()[::5]
    collect(st, pmap(cli_task, [(c,) for c in chunks(cli, 6)]))
    collect(st, pmap(programs_task, tasks))
    cov = {
        'states': st.n.get('programs', 0),
        'transitions': st.n.get('runs', 0),
        'traces_validated_against_impl': st.n.get('cases', 0),
        'exhaustive': True,
        'rule': 'trace = (program, stdin); each is run by the real run::run at levels 0, 1, 2 with a deterministic step budget '
                'of %d commands; levels 1/2 must reproduce level 0 (stdout after the banner, stderr, exit status; for '
                'encoding errors same diagnostic with possibly withheld earlier text; for runs that exhaust the budget '
                'prefix-compatible output). states = programs, transitions = runs.' % B,
        'scope': {'general': {'alphabet': G16 if tier == 'quick' else G24, 'programs': len(gen)},
                  'renumbering': {'alphabets': [S24, F12], 'programs': len(ren)},
                  'renumbering_3_high_stacks': {'alphabet': S3, 'programs': len(ren3)},
                  'bailout_programs': len(bailout_family()), 'budget_programs': len(budget_family(tier)),
                  'mixed_programs': len(mixed_family()), 'size_cap_programs': len(sizecap_family()), 'labelflow_programs': len(lf), 'size_ladder_programs': len(sp), 'programs_through_the_command_line_in_every_level_spelling': len(cli),
                  'level_spellings': [' '.join(o) or '(no flag)' for _, o in SPELLINGS],
                  'pseudo_terminal': sorted(st.sets.get('pty', ())), 'curated_programs': len(cur), 'curated_inputs': len(cin),
                  'step_budget': {'budget/mixed/curated families': B, 'other families': 400}, 'inconclusive_after_8x_budget': st.n.get('inconclusive', 0)},
        'distinct_outcomes': {'level0_endings': sorted(st.sets.get('kinds', ())),
                              'distinct_level0_outputs': len(st.sets.get('outputs', ()))},
        'samples': ['형. 형.. 흐읏. 항.', '항.....♥ 항. 흑.... 형.....♥', loop_program(101) + ' 항.', '흑. 형..?'],
    }
    return finish(cov, st)


def replay(case):
    if case.get('kind') == 'cli':
        st = cli_task([case['prog']], only=case['opts'])
        for v in st.violations:
            if v.case['opts'] == case['opts']:
                return v.expected, v.observed
        return 'same', 'same'
    sh = shim()
    path = os.path.join(WORK, 'replay-opt-%d.hyeong' % os.getpid())
    with open(path, 'w', encoding='utf-8') as f:
        f.write(case['prog'])
    bad, o0, _ = compare_levels(sh, path, case['stdin'].encode('utf-8'), levels=(case['level'],))
    if bad:
        return bad[0][2], bad[0][3]
    return 'same', 'same'


RUNNERS = {'C02': run_c02}
