"""Engine `opteffects`: optimize() must not read stdin, write stdout/stderr, exit, or run for long (C10)."""
import itertools

from . import refparse as P
from .common import Stats, Violation, finish, hx, pmap, shim, collect
from .eng_optdiff import loop_program

SENTINEL = 'sentinel line 1\nsentinel line 2\n'


def alphabet():
    a = ['흑', '흑.', '흑..', '흐윽', '흐윽.', '흐윽..']
    for kind in (1, 2, 3, 4, 5):
        for syl in (1, 2):
            for d in (0, 3):
                a.append(P.spell(kind, syl, d))
    a += ['형?', '형!', '형.?♥!♡', '형?♥?', '형.', '형.♥', '항...♥']
    # a select whose own area is evaluated on the newly selected stack
    a += ['흑?', '흑!', '흑.?', '흑.!', '흑..?', '흑..!♥', '흑?♥!♡', '흐윽.?♥']
    return list(dict.fromkeys(a))


def step_bound(n):
    return max(10 ** 6, 10 ** 5 * (n + 1) ** 2)


def check_one(sh, st, text, level, timeout=10):
    r = sh.child('optsandbox', hx(text), level, hx(SENTINEL), timeout)
    st.inc('runs')
    if len(st.samples) < 3 and len(text) < 200:
        st.sample({'prog': text, 'level': level, 'record': r.extra.decode('utf-8', 'replace')[:60], 'stdin_offset_after': r.in_off})
    case = {'kind': 'optsandbox', 'prog': text if len(text) < 2000 else text[:200] + '…[%d chars]' % len(text), 'level': level}
    rec = r.extra.decode('utf-8', 'replace').split(' ')
    problems = []
    if r.status != 'exit=0':
        problems.append('status %s' % r.status)
    if rec[0] != 'DONE':
        problems.append('no completion record (process ended inside optimize)')
    if r.in_off != 0:
        problems.append('stdin consumed up to offset %d' % r.in_off)
    if r.out:
        problems.append('wrote to stdout: %r' % r.out[:80])
    if r.err:
        problems.append('wrote to stderr: %r' % r.err[:120])
    if rec[0] == 'DONE' and len(rec) >= 5:
        n, steps = int(rec[2]), int(rec[4])
        st.add('steps', min(steps, 10 ** 7) // 50)
        if steps > step_bound(n):
            problems.append('%d speculative steps for %d commands' % (steps, n))
        st.add('outcome', rec[1] + ('/kept' if rec[3] != '0' else '/all-pre-executed'))
    if problems:
        klass = 'effects:' + ('timeout' if r.status == 'sig=14' else problems[0].split(' ')[0])
        st.violate(Violation('C10', 'opteffects', klass, case,
                             'optimize returns; stdin untouched; nothing on stdout/stderr; exit 0; work bounded by text',
                             '; '.join(problems)))


def programs_task(texts, levels):
    st = Stats()
    sh = shim()
    for k, t in enumerate(texts):
        if st.n.get('viol:effects:timeout', 0) >= 2:
            st.inc('skipped_after_timeouts', len(texts) - k)
            break
        for lv in levels:
            check_one(sh, st, t, lv)
    st.inc('programs', len(texts))
    return st


def loop_alphabet_programs():
    """all loops of <= 3 commands over a loop alphabet with small values"""
    la = ['형.♥', '형♥', '항.♥', '항♥', '형.', '형', '흑...♥', '형.♡', '항...♥', '흣...♥', '형..!♥',
          '형...', '항...♥!♡', '항...♡!♥', '형...♥?♡', '항...?♡']
    out = []
    for n in range(1, 4):
        for t in itertools.product(la, repeat=n):
            out.append(' '.join(t))
    return out


def long_family(tier):
    out = []
    ks = [1000, 10 ** 4, 10 ** 5] + ([10 ** 6] if tier != 'quick' else [])
    for K in ks:
        out.append(loop_program(K))
        out.append('형... 항. ' + loop_program(K) + ' 항.')
    out.append(loop_program(0))
    out.append('형.♥ 형.♥ 형.♥ ' + loop_program(0))
    # loops whose values explode (repeated squaring, factorial-like growth): the work of the optimizer must stay
    # bounded by the text here too
    out.append('형.. 흑...♥ 하앗... 항...♥')                    # x -> x*x, 100 times
    out.append('형... 흑...💕 흑... 하앗... 하앗... 항...💕')      # x -> x^3
    out.append('형.. 형... 흡... 흑...♥ 하앗... 항...♥')          # (1/3)^(2^k): exploding denominators
    out.append('형... 항. ' + '형.. 흑...♥ 하앗... 항...♥' + ' 항.')
    # the same for every arithmetic command and 1..3 operands: results fed back into the same command by a loop
    for kind in (1, 2, 3, 4):
        for syl in (1, 2, 3):
            op = P.spell(kind, syl, 3)
            out.append('형.. 형... %s💕 %s💕' % (op, op))
            out.append('형.. 형... 흑...♥ %s 항...♥' % op)
            out.append('형.. 흡... 형... 흑...♥ %s 흑... 항...♥' % op)
    # counting down in the pre-executed part, values stay small, many distinct labels
    out.append(' '.join(loop_program(120).replace('💕', h) for h in P.HEARTS[:11]))
    return out


def run_c10(tier):
    st = Stats()
    a = alphabet()
    n = 3 if tier == 'quick' else 4
    progs = [' '.join(t) for k in range(0, n + 1) for t in itertools.product(a, repeat=k)]
    loops = loop_alphabet_programs()
    longs = long_family(tier)
    tasks = []
    for i in range(0, len(longs), 1):
        tasks.append((longs[i:i + 1], (0, 1, 2)))
    for i in range(0, len(progs), 2000):
        tasks.append((progs[i:i + 2000], (0, 1, 2)))
    for i in range(0, len(loops), 500):
        tasks.append((loops[i:i + 500], (1, 2)))
    collect(st, pmap(programs_task, tasks), limit=40)
    cov = {
        'states': st.n.get('programs', 0),
        'transitions': st.n.get('runs', 0),
        'traces_validated_against_impl': st.n.get('runs', 0),
        'exhaustive': True,
        'rule': 'trace = (program, level): optimize::optimize runs in a forked child whose stdin is a sentinel file and whose '
                'stdout/stderr are empty files; afterwards the stdin offset must be 0, both outputs empty, the completion '
                'record present, exit status 0, and the speculative step counter (hook) <= max(1e6, 1e5*(n+1)^2); 10 s limit',
        'scope': {'alphabet': a, 'max_len': n, 'programs': len(progs), 'loop_programs': len(loops),
                  'long_running_programs': len(longs), 'levels': [0, 1, 2]},
        'distinct_outcomes': {'results': sorted(st.sets.get('outcome', ())), 'distinct_step_counts_div50': len(st.sets.get('steps', ()))},
        'samples': ['흑 항', '흑. 흐읏...', '형?♥?', loop_program(5), 'loop_program(100000)'],
    }
    return finish(cov, st)


def replay(case):
    if '…[' in case['prog']:
        return 'see: program shortened in the record', ''
    st = Stats()
    check_one(shim(), st, case['prog'], case['level'])
    if st.violations:
        return st.violations[0].expected, st.violations[0].observed
    return 'clean', 'clean'


RUNNERS = {'C10': run_c10}
