"""Engine `parse`: exhaustive string / command-list exploration of the parser against R-PARSE.
Serves C04 (parsing is total and follows the grammar) and C08 (render/parse round trip,
re-parse clause, check listing)."""
import itertools
import os
import re

from . import refparse as P
from .common import WORK, Stats, Violation, hx, pmap, shim, finish, collect, guard_task

S16 = ['형', '흑', '혀', '하', '엉', '앙', '앗', '가', '.', '…', '♥', '♡', '?', '!', ' ', '\n']
S10 = ['형', '하', '앙', '흐', '읏', '.', '♥', '?', '!', '\n']
S64 = S16 + ['항', '핫', '흣', '흡', '흐', '읏', '읍', '윽', '❤', '💕', '💖', '💗', '💘', '💙', '💚', '💛', '💜', '💝',
             '⋯', '⋮', '\uac00', '\ud7a3', '\uabff', '\ud7a4', '\u314e', '\u1112', '\u00b7', '\u3002', '\uff1f', '\uff01',
             '\U0001F494', '\U0001F49E', '\U0001F5A4', '\t', '\r', '\u3000', '\u2028', '\u00a0', 'a', '[', '_', '\ufe0f',
             '0', '\u0085']
S64 = list(dict.fromkeys(S64))
# line ends and marks as other systems write them, each one symbol: CR LF, lone CR, LF, byte-order mark, NUL
SCR = ['형', '하', '앙', '혀', '엉', '.', '♥', '?', ' ', '\r\n', '\r', '\n', '\ufeff', '\x00']


# ------------------------------------------------------------------ comparison of one parse result

def split_line(line):
    """shim line -> (list of command field lists, reparse flag, [display list])"""
    parts = line.split('|')
    cmds = []
    if parts[0]:
        for c in parts[0].split(';'):
            f = c.split(':')
            cmds.append(f)
    return cmds, parts[1], (parts[2].split(';') if len(parts) > 2 and parts[2] else [])


def compare(text, line, ref=None):
    """returns None if the implementation's result for `text` is right, else (klass, expected, observed)"""
    if ref is None:
        ref = P.parse(text)
    exp = P.render(ref)
    head = line.split('|', 1)[0]
    if head == exp:
        return None
    if line.startswith('PANIC'):
        return ('parse:panic', exp, line)
    cmds, _, _ = split_line(line)
    if len(cmds) != len(ref):
        return ('parse:count', exp, head)
    for r, f in zip(ref, cmds):
        if len(f) != 7:
            return ('parse:format', r.render(), ':'.join(f))
        kind, syl, dots, line_, col, area, raw = f
        if int(kind) != r.kind:
            return ('parse:kind', r.render(), ':'.join(f))
        if int(syl) != r.syl:
            return ('parse:syllables', r.render(), ':'.join(f))
        if int(dots) != r.dots:
            return ('parse:dots', r.render(), ':'.join(f))
        if area != P.area_prefix(r.area()):
            return ('parse:area', r.render(), ':'.join(f))
        if int(line_) != r.line or int(col) != r.col:
            return ('parse:location', r.render(), ':'.join(f))
        # raw text: compared semantically (DESIGN 1.3a)
        span = text[r.start:r.end]
        ok = bool(raw) and raw[0] == span[0] and P.is_subsequence(raw, span)
        if ok:
            back = P.parse(raw)
            ok = len(back) == 1 and back[0].key() == r.key()
        if not ok:
            return ('parse:raw', r.render(), ':'.join(f))
    return None


# ------------------------------------------------------------------ C04 (1): all strings over an alphabet

@guard_task(0, 'parse')
def bulk_task(prop, alphabet, prefix, rest, track):
    st = Stats()
    sh = shim()
    P.TRACK[0] = track
    sh.send('parsebulk', ','.join(hx(a) for a in alphabet), hx(prefix), rest)
    sh.p.stdin.flush()
    n = 0
    ncmds = 0
    for tup in itertools.product(alphabet, repeat=rest):
        text = prefix + ''.join(tup)
        ref = P.parse(text)
        exp = P.render(ref)
        line = sh.recv()
        n += 1
        ncmds += len(ref)
        head, _, flag = line.partition('|')
        if prop == 'C04':
            if head != exp:
                r = compare(text, line, ref)
                if r is not None:
                    st.violate(Violation('C04', 'parse', r[0], {'kind': 'string', 'text': text}, r[1], r[2]))
        else:
            if flag[:1] != '1' and not line.startswith('PANIC'):
                st.violate(Violation('C08', 'parse', 'reparse', {'kind': 'reparse', 'text': text},
                                     'parse(concat(raw_i)) == parse(text) up to locations', line))
    st.sample({'text': text, 'parsed_as': exp})
    end = sh.recv()
    if end != 'END %d' % n:
        raise RuntimeError('bulk out of sync: %r vs %d' % (end, n))
    st.inc('strings', n)
    st.inc('commands', ncmds)
    if track:
        st.sets['configs'] = set(P.CONFIGS)
        st.sets['trans'] = set(P.TRANSITIONS)
        P.CONFIGS.clear()
        P.TRANSITIONS.clear()
    P.TRACK[0] = False
    return st


def bulk_tasks(prop, alphabet, maxlen, track_upto=4):
    tasks = []
    for L in range(0, maxlen + 1):
        if L <= 2:
            tasks.append((prop, alphabet, '', L, L <= track_upto))
        else:
            for a in alphabet:
                for b in alphabet:
                    tasks.append((prop, alphabet, a + b, L - 2, L <= track_upto))
    return tasks


# ------------------------------------------------------------------ C04 (2): pumped families

PUMP = [1, 2, 3, 10, 100, 1000, 5000]


def pumped_texts(tier):
    out = []
    # syllable and dot counters, all spellings
    for kind in range(6):
        for n in PUMP:
            for m in ([0] + PUMP):
                for sp in ('.', '…', 'mix', 'late'):
                    if m == 0 and sp != '.':
                        continue
                    if sp == '.':
                        d = '.' * m
                    elif sp == '…':
                        d = '…' * m
                    elif sp == 'mix':
                        d = ''.join('.⋯…⋮'[i % 4] for i in range(m))
                    else:
                        d = '.' * m + '♥' + '…' * m   # dots after the area began count nothing
                    out.append(P.spell_syllables(kind, n) + d)
    # operator chains: every pattern up to length 10, three slot fillings
    for L in range(0, 11):
        for pat in itertools.product('?!', repeat=L):
            for fill in (0, 1, 2):
                s = ['형.']
                for i in range(L + 1):
                    if fill == 1 or (fill == 2 and i % 2 == 0):
                        s.append(P.HEARTS[i % 12])
                    if i < L:
                        s.append(pat[i])
                out.append(''.join(s))
    # every slot filling for patterns up to length 4
    slotalpha = ['', '♥', '♡❤']
    for L in range(0, (4 if tier == 'quick' else 5) + 1):
        for pat in itertools.product('?!', repeat=L):
            for slots in itertools.product(slotalpha, repeat=L + 1):
                s = ['흑..']
                for i in range(L + 1):
                    s.append(slots[i])
                    if i < L:
                        s.append(pat[i])
                out.append(''.join(s))
    return out


BOUNDS_Q = [7, 8, 9, 15, 16, 17, 31, 32, 33, 63, 64, 65, 127, 128, 129, 254, 255, 256, 257, 511, 512, 513, 1023, 1024, 1025,
            4095, 4096, 4097]
BOUNDS_T = BOUNDS_Q + [8191, 8192, 8193, 65535, 65536, 65537]


def ladder_texts(tier):
    """counters, positions and lengths taken across the sizes at which a width, a buffer or a fast path would switch"""
    out = []
    B = BOUNDS_Q if tier == 'quick' else BOUNDS_T
    for n in B:
        for kind in range(6):
            out.append(P.spell_syllables(kind, n) + '.')                     # syllable counter
            out.append(P.KIND_NAMES[kind] + '.' * n)                         # dot counter
            out.append(P.KIND_NAMES[kind] + '…' * n)                         # ... three at a time
        out.append(P.spell_syllables(0, n) + ''.join('.⋯…⋮'[i % 4] for i in range(n)) + '♥')
        out.append('형.' + '?' * n + ' 형' + '!' * n + ' 항.')                # operator counts, per command
        out.append(' '.join(['형!' * 1] * n) + ' 형?!♥')                      # ... and summed over commands
        out.append('형' + '♥' * n + '?' + '💕' * n)                           # redundant hearts
        out.append('\n' * n + '형.')                                         # line number
        out.append('a' * n + '형. 형')                                        # column, text before the first command
        out.append('형' + '가' * n + '. 형..')                                # other text inside a command
        out.append(' '.join(P.spell(i % 6, 1 + i % 2, i % 3, None) for i in range(n)))   # number of commands
        out.append('\n'.join('형.' for i in range(n)))                       # ... one per line
    return out


def long_texts(tier):
    out = []
    for N in (100, 1000, 4096):
        for unit in ('?', '!', '?!', '!?', '♥?', '♡!', '♥!💕?', '?♥!'):
            reps = N // (unit.count('?') + unit.count('!'))
            out.append('하앙..' + unit * reps)
            out.append('하앙..' + unit * reps + ' 형' + unit * 3)
    # long files
    for n in (10000,):
        out.append(''.join('형.' + ('\n' if i % 7 == 6 else ' ') for i in range(n)))
        out.append(''.join(P.spell(i % 6, 1 + i % 3, i % 5, None) + ('♥' if i % 4 == 0 else '') + ('\n' if i % 5 == 4 else '')
                           for i in range(n)))
    return out


@guard_task(0, 'parse')
def explicit_task(prop, texts, fork):
    """parse explicitly given texts (one request each)"""
    st = Stats()
    sh = shim()
    if fork:
        for t in texts:
            r = sh.child('parsefork', hx(t), 60)
            st.inc('strings')
            if r.status != 'exit=0':
                st.violate(Violation('C04', 'parse', 'parse:crash', {'kind': 'string', 'text': _shorten(t), 'fork': True},
                                     'parse returns', r.status + ' ' + r.err.decode('utf-8', 'replace')[-200:]))
                continue
            line = r.extra.decode('utf-8', 'replace')
            res = compare(t, line)
            if res is not None and prop == 'C04':
                st.violate(Violation('C04', 'parse', res[0], {'kind': 'string', 'text': _shorten(t), 'fork': True},
                                     _shorten(res[1]), _shorten(res[2])))
            if prop == 'C08' and line.rsplit('|', 1)[-1] != '1':
                st.violate(Violation('C08', 'parse', 'reparse', {'kind': 'reparse', 'text': _shorten(t)}, 'flag 1', _shorten(line)))
        return st
    resps = sh.batch([('parse', hx(t)) for t in texts])
    for t, line in zip(texts, resps):
        st.inc('strings')
        ref = P.parse(t)
        st.inc('commands', len(ref))
        if prop == 'C04':
            res = compare(t, line, ref)
            if res is not None:
                st.violate(Violation('C04', 'parse', res[0], {'kind': 'string', 'text': _shorten(t)},
                                     _shorten(res[1]), _shorten(res[2])))
            else:
                # Display rendering of the area is what `check` prints: must be the bracketed infix form
                _, _, disp = split_line(line)
                exp = [P.area_infix(c.area()) for c in ref]
                if disp != exp and not line.startswith('PANIC'):
                    st.violate(Violation('C04', 'parse', 'parse:display', {'kind': 'string', 'text': _shorten(t)},
                                         _shorten(';'.join(exp)), _shorten(';'.join(disp))))
        else:
            if line.split('|')[1:2] != ['1']:
                st.violate(Violation('C08', 'parse', 'reparse', {'kind': 'reparse', 'text': _shorten(t)}, 'flag 1', _shorten(line)))
    return st


def _shorten(s, n=400):
    return s if len(s) <= n else s[:n // 2] + '…[%d chars]…' % len(s) + s[-n // 2:]


# ------------------------------------------------------------------ listing (`hyeong check`)

LIST_RE = re.compile(r'^ *(\d+) *\| *(.*):(\d+):(\d+) +(\S)_(\d+)_(\d+) +(\S+) *$')


def listing_task(prop, texts, tag):
    """each text goes through the real `check` run; the listing must determine every command"""
    st = Stats()
    sh = shim()
    path = os.path.join(WORK, 'list-%s-%d.hyeong' % (tag, os.getpid()))
    for t in texts:
        with open(path, 'w', encoding='utf-8') as f:
            f.write(t)
        r = sh.child('check', hx(path))
        st.inc('listings')
        ref = P.parse(t)
        case = {'kind': 'listing', 'text': _shorten(t)}
        if r.status != 'exit=0':
            st.violate(Violation(prop, 'parse', 'listing:status', case, 'exit=0', r.status + ' ' + r.err.decode('utf-8', 'replace')[-200:]))
            continue
        lines = r.out.decode('utf-8', 'replace').split('\n')
        lines = [l for l in lines if l and not l.startswith('==> ')]
        if len(lines) != len(ref):
            st.violate(Violation(prop, 'parse', 'listing:count', case, '%d lines' % len(ref), '%d lines' % len(lines)))
            continue
        for i, (c, l) in enumerate(zip(ref, lines)):
            st.inc('listing_lines')
            m = LIST_RE.match(l)
            ok = m is not None
            if ok:
                try:
                    tree = P.parse_infix(m.group(8))
                except (AssertionError, IndexError):
                    tree = 'unparsable'
                ok = (int(m.group(1)) == i and int(m.group(3)) == c.line and int(m.group(4)) == c.col
                      and m.group(5) == P.KIND_NAMES[c.kind] and int(m.group(6)) == c.syl and int(m.group(7)) == c.dots
                      and tree == c.area())
            if not ok:
                st.violate(Violation(prop, 'parse', 'listing:line', case,
                                     '%d | …:%d:%d  %s_%d_%d %s' % (i, c.line, c.col, P.KIND_NAMES[c.kind], c.syl, c.dots,
                                                                     P.area_infix(c.area())), l))
                break
    try:
        os.unlink(path)
    except OSError:
        pass
    return st


def run_c04(tier):
    st = Stats()
    if tier == 'quick':
        plan = [(S16, 6), (S64, 3), (SCR, 5)]
    else:
        plan = [(S16, 7), (S64, 4), (S10, 8), (SCR, 7)]
    tasks = []
    for alpha, n in plan:
        tasks += bulk_tasks('C04', alpha, n)
    pumped = pumped_texts(tier)
    for i in range(0, len(pumped), 400):
        tasks.append(('explicit', pumped[i:i + 400], False))
    for t in long_texts(tier):
        tasks.append(('explicit', [t], True))
    ladder = ladder_texts(tier)
    deep = [t for t in ladder if t.count('?') + t.count('!') > 200]      # deep trees: own process, no recursive rendering
    flat = [t for t in ladder if t.count('?') + t.count('!') <= 200]
    for i in range(0, len(flat), 30):
        tasks.append(('explicit', flat[i:i + 30], False))
    for i in range(0, len(deep), 8):
        tasks.append(('explicit', deep[i:i + 8], True))
    lst = [''.join(t) for L in range(0, 4) for t in itertools.product(S16, repeat=L)]
    for i in range(0, len(lst), 300):
        tasks.append(('listing', lst[i:i + 300], 'c04-%d' % i))
    tasks.sort(key=lambda t: 0 if t[0] in ('explicit', 'listing') else 1)
    collect(st, pmap(_c04_task, [(t,) for t in tasks]))
    cov = {
        'states': len(st.sets.get('configs', ())),
        'transitions': len(st.sets.get('trans', ())),
        'traces_validated_against_impl': st.n.get('strings', 0) + st.n.get('listings', 0),
        'exhaustive': True,
        'rule': 'trace = one input string, parsed by parse::parse and by the reference grammar machine; compared on kind, '
                'both counts, area tree, line:column and raw text (semantically) of every command; a panic is a violation. '
                'states/transitions = distinct configurations (mode, open class, #area tokens capped at 2, last token class) '
                'and (configuration, character class) pairs of the reference machine driven by strings of length <= 4',
        'scope': {'alphabets': [{'size': len(a), 'max_len': n, 'symbols': ''.join(a).replace('\n', '\\n')} for a, n in plan],
                  'strings': st.n.get('strings', 0), 'commands_compared': st.n.get('commands', 0),
                  'pumped_family_strings': len(pumped), 'long_inputs_forked': len(long_texts(tier)),
                  'size_ladder_strings': len(ladder), 'size_ladder': BOUNDS_Q if tier == 'quick' else BOUNDS_T,
                  'check_listings': st.n.get('listings', 0), 'listing_lines': st.n.get('listing_lines', 0)},
        'samples': ['?형..♥ 하앙.', '혀가.엉…?♥❤!♡. 흑', '하앗\n 혀', '형.' + '?♥' * 3 + ' (…4096 operators)'],
    }
    return finish(cov, st)


def _c04_task(t):
    if t[0] == 'explicit':
        return explicit_task('C04', t[1], t[2])
    if t[0] == 'listing':
        return listing_task('C04', t[1], t[2])
    return bulk_task(*t)


# ------------------------------------------------------------------ C08

SLOTS = [None, '♥', '💕', '♡']


def trees_upto(k, slots=SLOTS):
    """grammar-shaped trees with <= k operators, as token lists"""
    out = []
    for n in range(0, k + 1):
        for pat in itertools.product('?!', repeat=n):
            for sl in itertools.product(slots, repeat=n + 1):
                toks = []
                for i in range(n + 1):
                    if sl[i] is not None:
                        toks.append(sl[i])
                    if i < n:
                        toks.append(pat[i])
                out.append(toks)
    return out


def dot_spellings(d):
    sp = ['.' * d]
    if d >= 3:
        sp.append('…' * (d // 3) + '.' * (d % 3))
        sp.append('.' * (d % 3) + '⋮' * (d // 3))
    return sp


class CmdSpec(object):
    """a command to render: kind, syl, dot spelling, area tokens"""
    __slots__ = ('kind', 'syl', 'dotsp', 'toks')

    def __init__(self, kind, syl, dotsp, toks):
        self.kind, self.syl, self.dotsp, self.toks = kind, syl, dotsp, toks

    @property
    def dots(self):
        return sum(P.DOTS[c] for c in self.dotsp)

    def key(self):
        return (self.kind, self.syl, self.dots, P.area_prefix(P.area_tree(self.toks)))


FILL_S = [' ', '\n', 'a', '.', '…', '?', '!', '♥', '♡']
FILL_D = [' ', '\n', 'a', '가', '엉', '앗', '윽', '혀', '흐']
FILL_A = FILL_D + ['.', '…', '⋮']
FILL_PRE = FILL_D + ['.', '⋯', '?', '!', '♥', '♡']


def segments(cmds):
    """list of (mandatory text, gap class after it); first entry is ('', 'PRE')"""
    segs = [('', 'PRE')]
    for c in cmds:
        syl = P.spell_syllables(c.kind, c.syl)
        for i, ch in enumerate(syl):
            segs.append((ch, 'S' if i < len(syl) - 1 else 'D'))
        for ch in c.dotsp:
            segs.append((ch, 'D'))
        slot_has_heart = False
        for t in c.toks:
            if t in '?!':
                slot_has_heart = False
                segs.append((t, 'A'))
            else:
                slot_has_heart = True
                segs.append((t, 'AH'))
    return segs


def fillers_for(cls):
    if cls == 'S':
        return FILL_S
    if cls == 'D':
        return FILL_D
    if cls == 'A':
        return FILL_A
    if cls == 'AH':
        return FILL_A + ['❤', '♡']
    return FILL_PRE


def compose(segs, fills):
    """fills: {segment index: filler text}; returns (text, [(index, char) of filler characters])"""
    out = []
    pos = 0
    fpos = []
    for k, (s, _) in enumerate(segs):
        out.append(s)
        pos += len(s)
        f = fills.get(k)
        if f:
            for ch in f:
                fpos.append((pos, ch))
                pos += 1
            out.append(f)
    return ''.join(out), fpos


def renderings(cmds, max_fill):
    segs = segments(cmds)
    yield compose(segs, {})
    if max_fill >= 1:
        for i, (_, cls) in enumerate(segs):
            for f in fillers_for(cls):
                yield compose(segs, {i: f})
    if max_fill >= 2:
        n = len(segs)
        for i in range(n):
            for j in range(i, n):
                for f in fillers_for(segs[i][1]):
                    for g in fillers_for(segs[j][1]):
                        if i == j:
                            yield compose(segs, {i: f + g})
                        else:
                            yield compose(segs, {i: f, j: g})


def stray_conflict(text, fpos):
    """a start syllable used as filler is ignorable only if no end syllable of its class follows"""
    for i, ch in fpos:
        s = P.START.get(ch)
        if s is not None:
            for c2 in text[i + 1:]:
                e = P.END.get(c2)
                if e is not None and e[0] == s:
                    return True
    return False


@guard_task('C08', 'parse')
def roundtrip_task(cmdlists, max_fill):
    st = Stats()
    sh = shim()
    texts = []
    meta = []
    for cmds in cmdlists:
        want = [c.key() for c in cmds]
        for t, fpos in renderings(cmds, max_fill):
            if stray_conflict(t, fpos):
                st.inc('skipped_stray')
                continue
            texts.append(t)
            meta.append(want)
    if texts:
        st.sample({'rendering': texts[len(texts) // 2], 'commands': [list(w) for w in meta[len(texts) // 2]]})
    resps = sh.batch([('parse', hx(t)) for t in texts])
    for t, want, line in zip(texts, meta, resps):
        st.inc('renderings')
        if line.startswith('PANIC'):
            st.violate(Violation('C08', 'parse', 'roundtrip:panic', {'kind': 'roundtrip', 'text': t}, str(want), line))
            continue
        cmds, flag, _ = split_line(line)
        got = [(int(f[0]), int(f[1]), int(f[2]), f[5]) for f in cmds]
        if got != want:
            st.violate(Violation('C08', 'parse', 'roundtrip', {'kind': 'roundtrip', 'text': t, 'want': [list(w) for w in want]},
                                 str(want), str(got)))
        elif flag != '1':
            st.violate(Violation('C08', 'parse', 'reparse', {'kind': 'reparse', 'text': t}, 'flag 1', line))
    st.inc('lists', len(cmdlists))
    return st


def single_commands(syls, dotss, trees):
    out = []
    for kind in range(6):
        for syl in syls:
            for d in dotss:
                for sp in dot_spellings(d):
                    for toks in trees:
                        out.append(CmdSpec(kind, syl, sp, toks))
    return out


def sub_alphabet(n):
    """n commands covering every kind, one- and multi-syllable spellings, dot spellings, area shapes"""
    base = [CmdSpec(0, 1, '', []), CmdSpec(0, 2, '.', []), CmdSpec(1, 1, '...', ['♥']), CmdSpec(1, 3, '…', []),
            CmdSpec(2, 2, '', ['?']), CmdSpec(3, 1, '.', ['♥', '?', '♡']), CmdSpec(4, 2, '..', ['!', '💕']),
            CmdSpec(5, 1, '.', []), CmdSpec(5, 2, '⋮.', ['♥', '!', '♡', '?']), CmdSpec(3, 3, '', ['♡']),
            CmdSpec(2, 1, '.', ['?', '!']), CmdSpec(4, 1, '', []),
            CmdSpec(0, 3, '…..', ['💕', '?', '♥', '!', '♡']), CmdSpec(1, 2, '.', ['!']), CmdSpec(5, 3, '', ['?', '♥']),
            CmdSpec(2, 3, '..', []), CmdSpec(3, 2, '.…', ['♥']), CmdSpec(4, 3, '.', ['♡', '?', '?']),
            CmdSpec(0, 1, '.', ['!', '!', '♥']), CmdSpec(1, 1, '', ['?', '♥', '?', '♡']),
            CmdSpec(5, 1, '..', ['♥']), CmdSpec(2, 2, '…', ['♡', '!']), CmdSpec(3, 1, '', []), CmdSpec(4, 2, '', ['💕']),
            CmdSpec(0, 2, '', ['?']), CmdSpec(1, 3, '..', ['!', '♡']), CmdSpec(5, 2, '.', ['?', '!', '♥']),
            CmdSpec(2, 1, '', []), CmdSpec(3, 3, '…', ['♥', '!']), CmdSpec(4, 1, '...', ['♡'])]
    return base[:n]


def pumped_lists():
    """large counts: syllable / dot counts in the thousands, hundreds of operators"""
    out = []
    for kind in range(6):
        for n in (10, 100, 1000, 5000):
            for m in (0, 10, 100, 1000, 4999):
                out.append([CmdSpec(kind, n, '.' * m, [])])
                out.append([CmdSpec(kind, n, '…' * (m // 3) + '.' * (m % 3), ['♥', '?'])])
    for L in (10, 100, 300):
        for unit in (['?'], ['!'], ['♥', '?'], ['♡', '!', '💕', '?'], ['?', '!']):
            toks = (unit * L)[:L * len(unit)]
            out.append([CmdSpec(0, 2, '..', toks), CmdSpec(5, 1, '.', toks[:7])])
    return out


def ladder_lists(tier):
    """counts taken across the sizes at which a width, a buffer or a fast path would switch (cf. ladder_texts)"""
    out = []
    B = BOUNDS_Q if tier == 'quick' else BOUNDS_T
    for n in B:
        for kind in (0, 3, 5):
            out.append([CmdSpec(kind, n, '.', ['♥'])])
            out.append([CmdSpec(kind, 1, '.' * n, ['?', '♡'])])
            out.append([CmdSpec(kind, 2, '…' * (n // 3) + '.' * (n % 3), [])])
        if n <= 4097:
            out.append([CmdSpec(1, 1, '.', ['!'] * n), CmdSpec(2, 1, '', ['?'] * n), CmdSpec(0, 1, '.', ['?', '!', '♥'])])
            out.append([CmdSpec(4, 2, '', (['♥', '?', '💕', '!'] * n)[:n])])
        k = n // 5 + 1
        out.append([CmdSpec(0, 1, '', ['!'] * k)] * 6 + [CmdSpec(0, 1, '', ['?', '!', '♥'])])      # operators summed over commands
        out.append([CmdSpec(0, 1, '', ['?'] * k)] * 6 + [CmdSpec(0, 1, '', ['!', '?', '♥'])])
        out.append([CmdSpec(i % 6, 1 + i % 2, '.' * (i % 3), ['♥'] if i % 4 == 0 else []) for i in range(n)])   # number of commands
    return out


def run_c08(tier):
    st = Stats()
    tasks = []
    # (a) round trip
    if tier == 'quick':
        singles0 = single_commands([1, 2, 3, 5], [0, 1, 2, 3, 4, 6, 7], trees_upto(2))
        singles1 = single_commands([1, 2, 3], [0, 1, 3, 4], trees_upto(1, [None, '♥', '♡']))
        alpha3, alpha2 = sub_alphabet(20), sub_alphabet(14)
        fill3, fill2 = 0, 1
        pair_alpha = sub_alphabet(8)
    else:
        singles0 = single_commands([1, 2, 3, 5, 8], [0, 1, 2, 3, 4, 5, 6, 7, 9], trees_upto(3, [None, '♥', '♡']) + trees_upto(2))
        singles1 = single_commands([1, 2, 3, 5], [0, 1, 2, 3, 4, 6, 7], trees_upto(2))
        alpha3, alpha2 = sub_alphabet(30), sub_alphabet(30)
        fill3, fill2 = 0, 1
        pair_alpha = sub_alphabet(12)
    for i in range(0, len(singles0), 4000):
        tasks.append(('rt', [[c] for c in singles0[i:i + 4000]], 0))
    for i in range(0, len(singles1), 60):
        tasks.append(('rt', [[c] for c in singles1[i:i + 60]], 1))
    two = [c for c in singles1 if c.syl <= 2 and len(c.dotsp) <= 3 and len(c.toks) <= 2]
    two = two[:: (3 if tier == 'quick' else 1)]
    for i in range(0, len(two), 4):
        tasks.append(('rt', [[c] for c in two[i:i + 4]], 2))
    lists3 = [list(l) for n in range(0, 4) for l in itertools.product(alpha3, repeat=n)]
    for i in range(0, len(lists3), 2000):
        tasks.append(('rt', lists3[i:i + 2000], fill3))
    lists2 = [list(l) for n in range(1, 3) for l in itertools.product(alpha2, repeat=n)]
    for i in range(0, len(lists2), 20):
        tasks.append(('rt', lists2[i:i + 20], fill2))
    pairs2 = [list(l) for l in itertools.product(pair_alpha, repeat=2)]
    for i in range(0, len(pairs2), 1):
        tasks.append(('rt', pairs2[i:i + 1], 2))
    pl = pumped_lists()
    for i in range(0, len(pl), 20):
        tasks.append(('rt', pl[i:i + 20], 0))
    ll = ladder_lists(tier)
    for i in range(0, len(ll), 12):
        tasks.append(('rt', ll[i:i + 12], 0))
    # (b) re-parse clause on the C04 string scope
    plan = [(S16, 6), (S64, 3), (SCR, 5)] if tier == 'quick' else [(S16, 7), (S64, 4), (S10, 8), (SCR, 7)]
    for alpha, n in plan:
        tasks += [('bulk',) + t for t in bulk_tasks('C08', alpha, n, track_upto=-1)]
    pumped = pumped_texts(tier)
    for i in range(0, len(pumped), 400):
        tasks.append(('explicit', pumped[i:i + 400], False))
    # (c) listing: many commands per file
    sl = singles0 if tier != 'quick' else singles0[::3]
    files = []
    for i in range(0, len(sl), 150):
        files.append('\n'.join(P.spell_syllables(c.kind, c.syl) + c.dotsp + ''.join(c.toks) for c in sl[i:i + 150]))
    # files larger than the usual 8 KiB read buffer, in the three byte alignments of 3-byte characters
    bigf = []
    chunk = sl[:1200]
    body = '\n'.join(P.spell_syllables(c.kind, c.syl) + c.dotsp + ''.join(c.toks) for c in chunk)
    for pad in ('', 'a', 'ab'):
        bigf.append(pad + body)
        bigf.append(pad + body.replace('\n', ' 가나다 \n'))
    files += bigf
    # listings with 1000+ / 4000+ lines (index width), long counts and long areas in the listing columns
    for n in ((1025, 4097) if tier == 'quick' else (1025, 4097, 10001, 65537)):
        files.append('\n'.join(P.spell(i % 6, 1 + i % 2, i % 3, None) + ('♥' if i % 4 == 0 else '') for i in range(n)))
    files.append('\n'.join(P.spell_syllables(k % 6, n) + '.' * n + '♥?' * (n % 100) for k, n in enumerate(BOUNDS_Q)))
    for i in range(0, len(files), 8):
        tasks.append(('listing', files[i:i + 8], 'c08-%d' % i))
    collect(st, pmap(_c08_task, [(t,) for t in tasks]))
    cov = {
        'states': len(singles0),
        'transitions': st.n.get('renderings', 0) + st.n.get('strings', 0) + st.n.get('listing_lines', 0),
        'traces_validated_against_impl': st.n.get('renderings', 0) + st.n.get('strings', 0) + st.n.get('listings', 0),
        'exhaustive': True,
        'rule': 'state = command description (kind, syllables, dot spelling, area tokens); trace = one rendering of a command '
                'list with fillers at ignorable positions, parsed by the real parser and required to give back the list; '
                'plus the re-parse clause on every string of the string scope and the check listing parsed back by an '
                'independent bracket parser',
        'scope': {'single_commands': len(singles0), 'single_commands_with_1_filler': len(singles1),
                  'single_commands_with_2_fillers': len(two),
                  'lists_upto_3': len(lists3), 'lists_upto_2_with_1_filler': len(lists2),
                  'pairs_with_2_fillers': len(pairs2), 'pumped_lists': len(pl), 'size_ladder_lists': len(ll),
                  'renderings': st.n.get('renderings', 0), 'skipped_stray_start_conflicts': st.n.get('skipped_stray', 0),
                  'reparse_strings': st.n.get('strings', 0),
                  'listing_files': st.n.get('listings', 0), 'listing_lines': st.n.get('listing_lines', 0)},
        'samples': ['혀 a엉..♥❤?♡', '엉형.가 하…앙⋮ ?.♥', '하아앙…' + '?♥' * 2 + ' 흑.'],
    }
    return finish(cov, st)


def _c08_task(t):
    if t[0] == 'rt':
        return roundtrip_task(t[1], t[2])
    if t[0] == 'bulk':
        return bulk_task(*t[1:])
    if t[0] == 'explicit':
        return explicit_task('C08', t[1], t[2])
    return listing_task('C08', t[1], t[2])


# ------------------------------------------------------------------ replay

def replay(case):
    sh = shim()
    k = case['kind']
    if k == 'shim_request':
        return 'see: raw shim request (re-run the check)', ''
    text = case['text']
    if '…[' in text and 'chars]…' in text:
        return 'see: long input shortened in the record', ''
    if k == 'string':
        if case.get('fork'):
            r = sh.child('parsefork', hx(text), 60)
            line = r.extra.decode('utf-8', 'replace') if r.status == 'exit=0' else r.status
        else:
            line = sh.call('parse', hx(text))
        res = compare(text, line)
        exp = P.render(P.parse(text))
        if res is None and not case.get('fork') and not line.startswith('PANIC'):
            # the bracketed infix rendering (what `check` prints) is compared as well
            _, _, disp = split_line(line)
            want = [P.area_infix(c.area()) for c in P.parse(text)]
            if disp != want:
                return ';'.join(want), ';'.join(disp)
        return (exp, exp) if res is None else (res[1], res[2])
    if k == 'reparse':
        line = sh.call('parse', hx(text))
        return '1', line.split('|')[1] if '|' in line else line
    if k == 'roundtrip':
        line = sh.call('parse', hx(text))
        cmds, _, _ = split_line(line)
        return (str([tuple(w) for w in case.get('want', [])]),
                str([(int(f[0]), int(f[1]), int(f[2]), f[5]) for f in cmds]))
    if k == 'listing':
        st = listing_task('C08', [text], 'replay')
        if st.violations:
            return st.violations[0].expected, st.violations[0].observed
        return 'ok', 'ok'
    return 'unknown', ''


RUNNERS = {'C04': run_c04, 'C08': run_c08}
