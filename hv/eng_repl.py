"""Engine `repl`: the interactive interpreter fed line by line equals running the program whole (C12)."""
import itertools
import os

from . import refinterp as I
from . import refparse as P
from .common import WORK, Stats, Violation, collect, finish, hx, pmap, shim, strip_sgr
from .eng_debug import P49, P65, P66, P67, PROGRAMS, push
from .eng_exec import A20, HORIZON, ref_trace
from .eng_optdiff import big, loop_program, push_value

LINE_BOUND = 3000

CROSS = [
    ('cross-loop', loop_program(4)),
    ('cross-two-loops', loop_program(4) + ' ' + loop_program(5).replace('💕', '💖') + ' 항.'),
    ('cross-heart', '형...♥ 흣. 형♡ 형.... 항...?♥ 형.... 항...?♥ %s 항.' % P65),
    # a return (♡) entered on a later line than the jump it returns to: the loop runs once more, the return is taken once
    ('cross-return-later', '형.... 형.... 형. 형.... 형. 항...♥ %s 항. 항...♥? %s 항. 항...♡?' % (push(48), push(49))),
    ('cross-return-later-label-first', '항...♥ 형.... 형.... 형. 형.... 형. 항...💕 %s 항. 항...💕? %s 항. 항...♡?' % (push(48), push(49))),
    ('cross-exit', '%s 항. 형 흣....💕 형. 하앙... 흣. 흑... 흣....!💕 %s 흑. 항 %s 항.' % (P65, P66, P67)),
]


def split_commands(text):
    """the program as a list of per-command source texts (from the reference parser's spans)"""
    cmds = P.parse(text)
    return [text[c.start:c.end].strip() for c in cmds]


# ------------------------------------------------------------------ reference REPL

class Repl(object):
    def __init__(self):
        self.m = I.Machine([], '')
        self.ended = None
        self.cut = False
        self.diag = False

    def line(self, text):
        """returns expected reply events for one input line"""
        t = text.strip()
        if t == '':
            return []
        if t == 'clear':
            self.m = I.Machine([], '')
            return []
        if t == 'help':
            return [('help',)]
        if t == 'exit':
            self.ended = 0
            return []
        cmds = P.parse(text)
        m = self.m
        o0, e0 = len(m.out), len(m.err)
        steps = 0
        try:
            for c in cmds:
                m.prog.append(c)
                m.trees.append(c.area())
                idx = len(m.prog) - 1
                while idx < len(m.prog):
                    if steps >= LINE_BOUND:
                        self.cut = True
                        return []
                    idx = m.step(idx)
                    steps += 1
        except I.Exit as e:
            self.ended = e.code
        except I.EncodingError:
            self.ended = 1
            self.diag = True
        except I.Unspecified:
            self.cut = True
            return []
        ev = []
        o = ''.join(m.out[o0:])
        e = ''.join(m.err[e0:])
        if o:
            ev.append(('out', o))
        if e:
            ev.append(('err', e))
        return ev


HELP_PREFIXES = ('clear  ', 'exit   ', '       You can also', 'help   ')


def parse_transcript(text):
    replies = [[]]
    pos = 0
    n = len(text)
    while pos < n:
        if text.startswith('> ', pos):
            replies.append([])
            pos += 2
            continue
        j = text.find('\n', pos)
        if j < 0:
            line, pos = text[pos:], n
        else:
            line, pos = text[pos:j], j + 1
        if len(replies) == 1:
            continue          # banner before the first prompt: wording not prescribed
        if line.startswith('[stdout] '):
            replies[-1].append(('out', line[9:]))
        elif line.startswith('[stderr] '):
            replies[-1].append(('err', line[9:]))
        elif replies[-1] and replies[-1][-1][0] in ('out', 'err'):
            # the program's text contained a line break: this line continues the payload
            k, t = replies[-1][-1]
            replies[-1][-1] = (k, t + '\n' + line)
        else:
            replies[-1].append(('text',))
    return replies


def check_session(lines, status, stdout, stderr):
    replies = parse_transcript(stdout)
    s = Repl()
    if replies[0]:
        return ('repl:preamble', '[]', str(replies[0]))
    k = 0
    for ln in lines:
        if s.ended is not None:
            break
        k += 1
        exp = s.line(ln)
        if s.cut:
            return None
        if k >= len(replies):
            return ('repl:short', 'prompt #%d for %r' % (k, ln), 'transcript ends after %d prompts; %s; stderr %r' % (
                len(replies) - 1, status, stderr[-200:]))
        if exp == [('help',)]:
            if replies[k] and all(g == ('text',) for g in replies[k]):
                continue
            return ('repl:reply', 'line %d %r: help text' % (k, ln), str(replies[k]))
        if exp != replies[k]:
            return ('repl:reply', 'line %d %r: %s' % (k, ln, exp), str(replies[k]))
    if s.ended is None:
        k += 1
        if len(replies) - 1 != k or replies[k]:
            return ('repl:eof', '%d prompts' % k, '%d prompts, tail %s; %s stderr %r' % (len(replies) - 1, replies[-1], status, stderr[-200:]))
        exp_status = 0
    else:
        if len(replies) - 1 != k:
            return ('repl:after-end', 'session over after %d prompts' % k, '%d prompts' % (len(replies) - 1))
        exp_status = s.ended
    if status != 'exit=%d' % exp_status:
        return ('repl:status', 'exit=%d' % exp_status, '%s stderr %r' % (status, stderr[-300:]))
    if 'panicked' in stderr:
        return ('repl:panic', 'no panic', stderr[-300:])
    if s.diag and '[error]' not in stderr:
        return ('repl:diagnostic', 'a diagnostic on stderr', repr(stderr[-200:]))
    if not s.diag and stderr.strip():
        return ('repl:stderr', 'empty stderr', repr(stderr[-300:]))
    return None


def cuttings(cmds, max_cuts=None):
    """ways to cut the command list into consecutive non-empty lines: all 2^(n-1) of them, or (max_cuts given)
    those with at most max_cuts cut points"""
    n = len(cmds)
    if n == 0:
        yield []
        return
    if max_cuts is None:
        masks = range(1 << (n - 1))
    else:
        masks = []
        for k in range(0, max_cuts + 1):
            for pos in itertools.combinations(range(n - 1), k):
                masks.append(sum(1 << p for p in pos))
    for mask in masks:
        lines = []
        cur = [cmds[0]]
        for i in range(1, n):
            if mask >> (i - 1) & 1:
                lines.append(' '.join(cur))
                cur = []
            cur.append(cmds[i])
        lines.append(' '.join(cur))
        yield lines


NOISE = ['', 'help', 'abc 가나다 .', 'exit', '  ']


ALL_CUTTINGS_UPTO = [9]


def sessions_for(text):
    cmds = split_commands(text)
    whole = ' '.join(cmds)
    out = []
    long_prog = len(cmds) > ALL_CUTTINGS_UPTO[0]
    for lines in cuttings(cmds, 3 if long_prog else None):
        out.append(list(lines))
        if long_prog and len(lines) > 3:
            continue
        for p in range(len(lines) + 1):
            for nz in NOISE:
                out.append(lines[:p] + [nz] + lines[p:])
        for p in range(1, len(lines) + 1):
            out.append(lines[:p] + ['clear', whole])
    return out


def sessions_task(name, sessions):
    st = Stats()
    sh = shim()
    for lines in sessions:
        pre = Repl()
        for ln in lines:
            if pre.ended is not None or pre.cut:
                break
            pre.line(ln)
        if pre.cut:
            st.inc('cut')
            continue
        data = ''.join(l + '\n' for l in lines)
        form = name.rsplit('+', 1)[1] if '+form-' in name else ''
        if form:
            # the same session with the program lines written differently (keyword lines are left as they are):
            # CR LF line ends, blanks / tabs around the commands, no line break after the last line
            kw = ('clear', 'help', 'exit')
            if form == 'form-crlf':
                data = ''.join((l + '\n') if l.strip() in kw else (l + '\r\n') for l in lines)
            elif form == 'form-blanks':
                data = ''.join((l + '\n') if l.strip() in kw else ('\t ' + l + ' \t\n') for l in lines)
            elif form == 'form-nofinal' and lines and lines[-1] != '':
                data = '\n'.join(lines)       # (an empty last line without a line break is no line at all)
            st.inc('sessions_other_line_forms')
        color = name.endswith('+color')
        if color:
            r = sh.child('repl', hx(data), 10, 'always')
            r.out, r.err = strip_sgr(r.out), strip_sgr(r.err)
            st.inc('sessions_with_colour')
        else:
            r = sh.child('repl', hx(data), 10)
        st.inc('sessions')
        st.inc('transitions', len(lines))
        if len(st.samples) < 3 and sum(len(l) for l in lines) < 300:
            st.sample({'program': name, 'lines': lines, 'status': r.status})
        st.add('status', r.status)
        res = check_session(lines, r.status, r.out.decode('utf-8', 'replace'), r.err.decode('utf-8', 'replace'))
        if res is not None:
            st.violate(Violation('C12', 'repl', res[0], {'kind': 'repl', 'program': name, 'lines': lines}, res[1], res[2]))
    return st


# ------------------------------------------------------------------ library level: execute() fed command by command

def incr_task(alphabet, prefix, rest, inputs, texts=None):
    st = Stats()
    sh = shim()
    B = 300
    it = texts if texts is not None else (' '.join(prefix + list(tup)) for tup in itertools.product(alphabet, repeat=rest))
    for text in it:
        prog = P.parse(text)
        for inp in inputs:
            steps, end, m = ref_trace(prog, inp, {}, 0, B)
            if end[0] == 'cut':
                st.inc('cut')
                continue
            r = sh.child('incr', hx(text), hx(inp), B)
            st.inc('incr_runs')
            st.inc('transitions', len(prog))
            case = {'kind': 'incr', 'prog': text, 'stdin': inp}
            recs = [x for x in r.extra.decode('utf-8', 'replace').split('\n') if x]
            last = recs[-1].split(' ') if recs else ['?']
            ok = True
            obs = '%s %s' % (r.status, recs[-1][:200] if recs else '')
            if end[0] == 'end':
                ok = last[0] == 'D' and len(recs) >= 1
                if ok and len(recs) >= 2:
                    f = recs[-2].split(' ')
                    snap = I.parse_state_debug(bytes.fromhex(f[2]).decode('utf-8'))
                    o = bytes.fromhex(f[3]).decode('utf-8', 'replace')
                    e = bytes.fromhex(f[4]).decode('utf-8', 'replace')
                    ok = (snap, o, e) == (m.snapshot(), m.out_text(), m.err_text())
                    obs = '%s out=%r err=%r' % (snap, o, e)
                elif ok:
                    ok = len(prog) == 0
            elif end[0] == 'exit':
                ok = (r.status == 'exit=%d' % end[1] and last[0] != 'D' and last[0] != 'E'
                      and r.out.decode('utf-8', 'replace') == end[2] and r.err.decode('utf-8', 'replace') == end[3])
                obs = '%s out=%r err=%r' % (r.status, r.out, r.err)
            elif end[0] == 'encoding':
                ok = last[0] == 'E' and 'budget' not in bytes.fromhex(last[1]).decode('utf-8', 'replace')
                if ok:
                    ok = (bytes.fromhex(last[2]).decode('utf-8', 'replace') == end[2]
                          and bytes.fromhex(last[3]).decode('utf-8', 'replace') == end[3])
            else:  # budget
                ok = last[0] == 'E' and 'budget' in bytes.fromhex(last[1]).decode('utf-8', 'replace')
                if ok:
                    ok = (bytes.fromhex(last[2]).decode('utf-8', 'replace') == m.out_text()
                          and bytes.fromhex(last[3]).decode('utf-8', 'replace') == m.err_text())
            st.add('ends', end[0])
            if not ok:
                st.violate(Violation('C12', 'repl', 'incr:' + end[0], case,
                                     '%s %s out=%r err=%r' % (end[0], m.snapshot(), m.out_text(), m.err_text()), obs))
    return st


def _task(t):
    if t[0] == 'sessions':
        return sessions_task(t[1], t[2])
    return incr_task(*t[1:])


WHITESPACE = ('whitespace-output', '%s 항. %s 항. %s 항.. %s 항. %s 항. %s 항..' % (P65, push(32), push(9), push_value(12288), P66, push(32)))
LATE_RETURN = ('late-return', '형 형 형 형...♥ 흣. 형♡ 형.... 항...?♥ %s 항.' % P65)


def pair_sessions(progs):
    """P1, clear, P2 for every ordered pair: after `clear` the continuation must equal a fresh session"""
    out = []
    for n1, t1 in progs:
        c1 = split_commands(t1)
        if not c1:
            continue
        for n2, t2 in progs:
            c2 = split_commands(t2)
            out.append([' '.join(c1), 'clear', ' '.join(c2)])
            out.append(c1 + ['clear'] + c2)
    return out


def scale_sessions(tier):
    """sessions of hundreds of lines, lines of hundreds of commands, state of hundreds of values / labels carried along"""
    from . import scale
    q = tier == 'quick'
    progs = [scale.deep_program(1, 65, 65), scale.deep_program(3, 257, 258), scale.many_labels(65, 7),
             scale.many_labels(257, 5, same_heart=True), scale.straight(520), scale.loop_program(180) + ' 항.']
    if not q:
        progs += [t for t in scale.scale_programs('quick')[::5]]
    out = []
    for t in progs:
        cmds = split_commands(t)
        out.append(cmds)                                         # one command per line
        for k in ((16, 65) if q else (8, 16, 17, 64, 65, 256, 257)):
            out.append([' '.join(cmds[i:i + k]) for i in range(0, len(cmds), k)])
        h = len(cmds) // 2
        out.append(cmds[:h] + ['clear'] + cmds)                  # a long session abandoned, then the whole again
    return out


def padded_sessions(tier):
    """short programs with jumps and returns, one command per line, with a block of n neutral lines (empty, text
    without a command, or a command that puts back what it takes) at every position: the number of lines a session has seen is taken across the size ladder"""
    from . import refinterp as I
    from .eng_optdiff import labelflow_family
    q = tier == 'quick'
    progs = [t for _, t in CROSS] + [LATE_RETURN[1]]
    lf = []
    for t in labelflow_family():
        pr = P.parse(t)
        if len(pr) > 10:
            continue
        end, m, steps = I.run(pr, 'ab\nc', max_steps=300, horizon=256)
        if end == 'end' and m.reads == 0 and m.returns > 0 and m.back_jumps + m.fwd_jumps > 0:     # C12 is about input-free programs
            lf.append(t)
    progs += lf[:: max(1, len(lf) // (40 if q else 200))]
    sizes = (16, 17, 64, 65, 256, 257) if q else (7, 8, 9, 15, 16, 17, 31, 32, 33, 63, 64, 65, 127, 128, 129, 255, 256, 257, 1024, 1025)
    out = []
    for t in progs:
        cmds = split_commands(t)
        for p in range(len(cmds) + 1):
            for n in sizes:
                for neutral in ('', 'abc 가나다 .', '항...'):      # the last one executes: pops and pushes back on stack 3
                    out.append(cmds[:p] + [neutral] * n + cmds[p:])
    return out, len(progs)


def run_c12(tier):
    ALL_CUTTINGS_UPTO[0] = 9 if tier == 'quick' else 15
    st = Stats()
    tasks = []
    progs = [p for p in PROGRAMS] + CROSS + [LATE_RETURN, WHITESPACE]
    if tier != 'quick':
        progs += [('cross-loop9', loop_program(9) + ' 항.'),
                  ('enc-mid', '%s 항. %s 항.. %s 항. %s 항.' % (P65, P66, big(216, 256), P67))]
    info = {}
    for name, text in progs:
        ss = sessions_for(text)
        nc = len(split_commands(text))
        info[name] = {'commands': nc, 'sessions': len(ss), 'cuttings': 'all' if nc <= ALL_CUTTINGS_UPTO[0] else '<= 3 cut points'}
        for i in range(0, len(ss), 300):
            tasks.append(('sessions', name, ss[i:i + 300]))
    ps = pair_sessions(progs)
    info['pairs-with-clear'] = {'sessions': len(ps)}
    for i in range(0, len(ps), 60):
        tasks.append(('sessions', 'pair', ps[i:i + 60]))
    # one entered line whose output has a line break followed by a long tail (longer than a stdio buffer)
    nl = '%s 항. ' % push(10) + ' '.join(['%s 항.' % P65] * 1100)
    nl2 = '%s 항.. ' % push(10) + ' '.join(['%s 항..' % P66] * 1100)
    tasks.append(('sessions', 'newline-long', [[nl], [nl2], ['%s 항.' % push(10), ' '.join(['%s 항.' % P65] * 1100)],
                                             [nl, 'clear', nl2]]))
    sc = scale_sessions(tier)
    info['size-ladder'] = {'sessions': len(sc), 'longest_session_lines': max(len(x) for x in sc)}
    for i in range(0, len(sc), 2):
        tasks.append(('sessions', 'scale', sc[i:i + 2]))
    pad, npad = padded_sessions(tier)
    info['neutral-line-padding'] = {'programs': npad, 'sessions': len(pad)}
    for i in range(0, len(pad), 40):
        tasks.append(('sessions', 'padded', pad[i:i + 40]))
    n = 3 if tier == 'quick' else 4
    alpha = A20
    for L in range(0, n + 1):
        if L <= 1:
            tasks.append(('incr', alpha, [], L, ['', 'ab\nc']))
        elif L <= 3:
            for a in alpha:
                tasks.append(('incr', alpha, [a], L - 1, ['', 'ab\nc']))
        else:
            for a in alpha:
                for b in alpha:
                    tasks.append(('incr', alpha, [a, b], L - 2, ['ab\nc']))
    from .eng_optdiff import labelflow_family
    lf = labelflow_family()
    for i in range(0, len(lf), 100):
        tasks.append(('incr', [], [], 0, ['ab\nc'], lf[i:i + 100]))
    # the same sessions with `--color always` (every 4th): colour sequences removed, the text must be the same
    base = [t for t in tasks if t[0] == 'sessions']
    tasks += [('sessions', t[1] + '+color', t[2][::4]) for t in base]
    # ... and with the program lines written in other forms (every 6th, a different sixth per form)
    for k, form in enumerate(('form-crlf', 'form-blanks', 'form-nofinal')):
        tasks += [('sessions', t[1] + '+' + form, t[2][k + 1::6]) for t in base if len(t[2]) > k + 1]
    collect(st, pmap(_task, [(t,) for t in tasks]))
    cov = {
        'states': sum(v.get('commands', 0) for v in info.values()),
        'transitions': st.n.get('transitions', 0),
        'traces_validated_against_impl': st.n.get('sessions', 0) + st.n.get('incr_runs', 0),
        'exhaustive': True,
        'rule': 'trace = one interactive session: a program cut at command boundaries into lines (all 2^(n-1) cuttings), with '
                'one noise line at every position, and with `clear` at every boundary followed by the whole program; run on the '
                'real interpreter::run and compared line by line with the reference (per-line [stdout]/[stderr] payloads, '
                'prompts, exit status). Library level: execute() fed command by command vs the whole-program reference run on '
                'all programs over A20 up to the length bound.',
        'scope': {'programs': info, 'noise_lines': NOISE, 'incr_alphabet': alpha, 'incr_max_len': n,
                  'incr_runs': st.n.get('incr_runs', 0), 'sessions': st.n.get('sessions', 0),
                  'sessions_repeated_with_colour_always': st.n.get('sessions_with_colour', 0),
                  'sessions_repeated_in_other_line_forms': st.n.get('sessions_other_line_forms', 0), 'cut': st.n.get('cut', 0)},
        'distinct_outcomes': {'session_status': sorted(st.sets.get('status', ())), 'incr_ends': sorted(st.sets.get('ends', ()))},
        'samples': [['형 흣....💕 형. 하앙...', '흣. 흑...', '흣....!💕'], ['형.', 'clear', '형.']],
    }
    return finish(cov, st)


def replay(case):
    if case['kind'] == 'repl':
        st = sessions_task(case['program'], [case['lines']])
    else:
        text = case['prog']
        cmds = text.split(' ') if text else []
        st = incr_task(['__'], cmds, 0, [case['stdin']]) if False else _replay_incr(text, case['stdin'])
    if st.violations:
        return st.violations[0].expected, st.violations[0].observed
    return 'agree', 'agree'


def _replay_incr(text, inp):
    # run incr_task on exactly one program: alphabet of one symbol, prefix = the program's commands
    cmds = [c for c in text.split(' ') if c]
    return incr_task([], cmds, 0, [inp])


RUNNERS = {'C12': run_c12}
