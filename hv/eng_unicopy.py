"""Engine `unicopy`: copy programs reproduce every UTF-8 input exactly, interpreted and compiled (C14)."""
import itertools
import os
import shutil
import subprocess

from . import refinterp as I
from . import refnum as R
from . import refparse as P
from .common import strip_log_lines, HYEONG, WORK, MachineryError, Stats, Violation, collect, finish, hx, pmap, shim, child_setup, run_chunked
from .eng_compile import emit, rustc

U = ['\x00', 'a', '\x7f', '\x80', '\u07ff', '\u0800', '\ud7ff', '\ue000', '\uffff', '\U00010000', '\U0010ffff', '\n', '\r']

CAT = '흑 흑♥ 항. 형. 하앙 흣.... 항♥?'
# test-first copier (written by a seeding sub-agent): no trailer, except that empty input yields one NaN text
CAT2 = '흑 흣...💘 흣.? 흑 흣...💘?'
# loop copier that leaves stack 0 to test for end of input and comes back (parks a NaN on stack 0)
CAT3 = '흑 흑.... 항... 흐윽....♥ 흑 항.... 항. 흑.... 형 하앗....♥?'
PROGRAMS = [('copy1', '흑 항.'), ('copy2', '흑 항. 항.'), ('copy3', '흑 항. 항. 항.'), ('copy4', '흑 항. 항. 항. 항.'),
            ('cat', CAT), ('cat-stderr', '흑 흑♥ 항.. 형. 하앙 흣.... 항♥?'), ('cat2', CAT2), ('cat3', CAT3)]


def expected_output(name, text):
    """what a copier of this kind must print (derived from the input only)"""
    if name.startswith('copy'):
        k = int(name[4:])
        chars = list(text[:k])
        return ''.join(chars) + R.NAN_TEXT * (k - len(chars))
    if name in ('cat2', 'cat3'):
        return text if text else R.NAN_TEXT
    return text + R.NAN_TEXT


def validate_programs():
    """each program must be a copier on R-INTERP for a spread of inputs; otherwise the harness is wrong"""
    probes = ['', 'a', 'ab\n', '\n\n', 'x\r\ny', '\x00\x00', '가\U0010ffff\n', 'no newline at end', 'abcde' * 40]
    for name, text in PROGRAMS:
        prog = P.parse(text)
        for inp in probes:
            end, m, steps = I.run(prog, inp, max_steps=20000)
            out = m.err_text() if name == 'cat-stderr' else m.out_text()
            if end != 'end' or out != expected_output(name, inp):
                raise MachineryError('program %s is not a copier on the reference for input %r: %s %r' % (name, inp, end, out[:80]))


def strip_banner(out):
    return strip_log_lines(out)


def build_all():
    """compile the programs at levels 0-2 once; returns dir"""
    d = os.path.join(WORK, 'unicopy')
    shutil.rmtree(d, ignore_errors=True)
    os.makedirs(d)
    sh = shim()
    problems = []
    for name, text in PROGRAMS:
        with open(os.path.join(d, name + '.hyeong'), 'w', encoding='utf-8') as f:
            f.write(text)
        for lv in (0, 1, 2):
            kind, payload = emit(sh, text, lv)
            if kind != 'src':
                problems.append((name, lv, 'emit: ' + payload[:200]))
                continue
            sp = os.path.join(d, '%s_%d.rs' % (name, lv))
            with open(sp, 'w', encoding='utf-8') as f:
                f.write(payload)
            rc, msg = rustc(sp, os.path.join(d, '%s_%d' % (name, lv)))
            if rc != 0:
                problems.append((name, lv, 'rustc: ' + msg[-300:]))
    return d, problems


def run_cfg(d, name, cfg, data, timeout=120, chunk=None, empty_after=None):
    """cfg = ('interp', level) | ('compiled', level) -> (status, stdout, stderr)"""
    env = dict(os.environ)
    env['RUST_BACKTRACE'] = '0'
    env.pop('HYEONG_VERIF_STEPS', None)
    if cfg[0] == 'interp':
        args = [HYEONG, 'run', '-O%d' % cfg[1], '--color', 'never', os.path.join(d, name + '.hyeong')]
    else:
        args = [os.path.join(d, '%s_%d' % (name, cfg[1]))]
    if chunk:
        rc, raw, err = run_chunked(args, data, chunk, env=env, timeout=timeout, empty_after=empty_after)
    else:
        try:
            p = subprocess.run(preexec_fn=child_setup, args=args, input=data, stdout=subprocess.PIPE, stderr=subprocess.PIPE, env=env, timeout=timeout)
        except subprocess.TimeoutExpired:
            return 'timeout', b'', b''
        rc, raw, err = p.returncode, p.stdout, p.stderr
    out = raw
    if cfg[0] == 'interp':
        out = strip_banner(out)
        if out is None:
            out = b'<no banner>' + raw
    return rc, out, err


CONFIGS = [('interp', 0), ('interp', 1), ('interp', 2), ('compiled', 0), ('compiled', 1), ('compiled', 2)]


def texts_task(d, texts, names, chunks=(None,), configs=None):
    st = Stats()
    for text in texts:
        if st.n.get('hangs', 0) >= 3:
            st.inc('skipped_after_hangs')
            continue        # three runs ran into the time limit: more of the same would only cost hours
        data = text.encode('utf-8')
        for name in names:
            exp = expected_output(name, text).encode('utf-8')
            for cfg, chunk in [(c, k) for c in (configs or CONFIGS) for k in chunks]:
                empty_after = None
                if chunk == 'empty-read':
                    # the first character alone, then a read that returns nothing, then the rest: only meaningful in the
                    # middle of a line (at a line end an empty read IS the end of input) and between two characters
                    if len(text) < 2 or text[0] == '\n':
                        continue
                    chunk, empty_after = len(text[0].encode('utf-8')), 0
                rc, out, err = run_cfg(d, name, cfg, data, chunk=chunk, empty_after=empty_after)
                st.inc('runs')
                if rc == 'timeout':
                    st.inc('hangs')
                if chunk:
                    st.inc('runs_chunked_stdin')
                if len(st.samples) < 3 and len(text) <= 8:
                    st.sample({'program': name, 'config': '%s -O%d' % cfg, 'input': text, 'status': rc})
                got, other = (err, out) if name == 'cat-stderr' else (out, err)
                if rc != 0 or got != exp or other != b'':
                    short = text if len(text) <= 40 else text[:20] + '…[%d chars]' % len(text)
                    st.violate(Violation('C14', 'unicopy', 'copy:%s:%s%d' % (name, cfg[0], cfg[1]),
                                         {'kind': 'unicopy', 'program': name, 'config': list(cfg), 'input': short,
                                          'chunk': 'empty-read' if empty_after is not None else chunk,
                                          'input_hex': data.hex() if len(data) <= 64 else None},
                                         'status 0, %d bytes: %r' % (len(exp), exp[:80]),
                                         'status %r, %d bytes: %r; other stream %r' % (rc, len(got), first_diff(exp, got), other[:80])))
        st.inc('texts')
        st.add('lens', len(text))
    return st


def first_diff(a, b):
    n = min(len(a), len(b))
    i = next((k for k in range(n) if a[k] != b[k]), n)
    return 'first difference at byte %d: expected %r got %r' % (i, a[max(0, i - 8):i + 8], b[max(0, i - 8):i + 8])


def scalars(lo, hi):
    return ''.join(chr(c) for c in range(lo, hi) if not (0xD800 <= c <= 0xDFFF))


def bulk_texts(tier):
    out = []
    edge = []
    for b in (0x0, 0x7f, 0x80, 0x7ff, 0x800, 0xd7ff, 0xe000, 0xfffe, 0xffff, 0x10000, 0x10ffff):
        for c in range(max(0, b - 2), min(0x10ffff, b + 2) + 1):
            if not (0xD800 <= c <= 0xDFFF):
                edge.append(chr(c))
    out.append(''.join(edge))
    out.append('\n'.join(edge))
    out.append(''.join(edge) + '\n')
    out.append('\n' * 50)
    out.append('x' * 70000)                    # longer than a pipe buffer, no terminator
    out.append('가' * 30000)                    # one 90000-byte line of 3-byte characters
    out.append('x' * 65535 + '가\n' + 'y' * 65534 + '\U0001F600z\n')   # multi-byte characters across 64 KiB boundaries
    out.append('x' * 65534 + '가' + 'y' * 9)
    out.append(('가나다' * 3000 + '\n') * 3)
    if tier != 'quick':
        allsc = scalars(0, 0x110000)
        out.append(allsc)                                                       # one 1.1 M-character text
        out.append('\n'.join(allsc[i:i + 64] for i in range(0, len(allsc), 64)))   # 64 per line
        out.append('\n'.join(allsc[:70000]) + '\n')                                # one per line
        out.append(allsc.replace('\n', '') )                                      # a single line
    else:
        out.append(scalars(0, 0x3000))
        out.append(scalars(0xfff0, 0x10100) + scalars(0x10fff0, 0x110000))
    return out


def run_c14(tier):
    st = Stats()
    validate_programs()
    d, problems = build_all()
    for name, lv, msg in problems:
        st.violate(Violation('C14', 'unicopy', 'build:%s:%d' % (name, lv), {'kind': 'build', 'program': name, 'level': lv},
                             'emitted source compiles', msg))
    n = 3 if tier == 'quick' else 4
    texts = [''.join(t) for k in range(0, n + 1) for t in itertools.product(U, repeat=k)]
    tasks = []
    names_small = [p[0] for p in PROGRAMS]
    if not problems:
        bulk = bulk_texts(tier)
        for t in bulk:
            for nm in ('cat', 'copy3', 'cat-stderr', 'cat2', 'cat3'):
                tasks.append((d, [t], [nm]))
        if tier == 'quick':
            # all texts of length <= 2 through every program; length 3 through cat and copy2
            short = [t for t in texts if len(t) <= 2]
            long3 = [t for t in texts if len(t) == 3]
            for i in range(0, len(short), 12):
                tasks.append((d, short[i:i + 12], names_small))
            for i in range(0, len(long3), 40):
                tasks.append((d, long3[i:i + 40], ['cat', 'copy2']))
        else:
            for i in range(0, len(texts), 40):
                tasks.append((d, texts[i:i + 40], names_small if i < 2400 else ['cat', 'copy3']))
        # the same input handed over 1, 2, 3 bytes per read (characters split between reads)
        dl = [t for t in texts if len(t) <= 2] + bulk[:3]
        for i in range(0, len(dl), 12):
            tasks.append((d, dl[i:i + 12], ['cat', 'cat3'], (1, 2, 3, 'empty-read'), [('interp', 0), ('interp', 2), ('compiled', 0)]))
        collect(st, pmap(texts_task, tasks))
    cov = {
        'states': st.n.get('texts', 0),
        'transitions': st.n.get('runs', 0),
        'traces_validated_against_impl': st.n.get('runs', 0),
        'exhaustive': True,
        'rule': 'trace = (copy program, input text, configuration); configurations = the real binary at -O0/-O1/-O2 with the '
                'text on its real stdin, and the three compiled executables of the same program; stdout bytes must equal the '
                'input bytes (copy-k: the first k characters; cat: the whole text followed by exactly one NaN text written '
                'when end of input is seen), nothing on the other stream, status 0. The copy programs are first validated on the '
                'reference interpreter.',
        'scope': {'alphabet': ['U+%04X' % ord(c) for c in U], 'max_len': n, 'texts': st.n.get('texts', 0),
                  'programs': {k: v for k, v in PROGRAMS}, 'configurations': ['%s -O%d' % c for c in CONFIGS],
                  'bulk_texts': 'boundary neighbourhoods, 70000-char unterminated line, long lines'
                                + (', every scalar value U+0000..U+10FFFF (one text, 64 per line, one per line)' if tier != 'quick'
                                   else ', all scalars below U+3000 and around U+FFFF/U+10000/U+10FFFF'),
                  'distinct_text_lengths': len(st.sets.get('lens', ())),
                  'runs_with_input_delivered_1_2_3_bytes_per_read': st.n.get('runs_chunked_stdin', 0)},
        'samples': [{'program': 'cat', 'input': 'a\\r\\n\\U0010FFFF'}, {'program': 'copy3', 'input': '\\x00\\n'},
                    {'program': 'cat', 'input': '(empty)'}],
    }
    return finish(cov, st)


def replay(case):
    if case['kind'] == 'build' or case.get('input_hex') is None:
        return 'see: build problem or long input (not replayable from the record)', ''
    validate_programs()
    d, problems = build_all()
    text = bytes.fromhex(case['input_hex']).decode('utf-8')
    st = texts_task(d, [text], [case['program']], chunks=(case.get('chunk'),))
    for v in st.violations:
        if v.case['config'] == case['config']:
            return v.expected, v.observed
    return 'copied exactly', 'copied exactly'


RUNNERS = {'C14': run_c14}
