#!/usr/bin/env python3
"""Regenerates /verif/MANIFEST.json from the table below (keeps it consistent with ./check)."""
import json
import os
import subprocess
import sys

VERIF = os.path.dirname(os.path.dirname(os.path.abspath(__file__)))

TECH = 'bounded exhaustive enumeration of %s, every case replayed on the real code and compared with an executable reference model'

CHECKS = {
    'C01': ('exec', 'explicit-state exploration of the interpreter: every command from every state of a constructed state '
                    'alphabet, every program over focused command alphabets up to a length bound, lock-step against '
                    'R-INTERP after each command; the same programs through the real `run` wiring',
            TECH % 'interpreter states x commands and of programs x inputs', '3 C01'),
    'C02': ('optdiff', 'all programs over focused alphabets (general, stack renumbering, bail-out, speculation budget) x '
                       'observers x inputs, levels 1 and 2 against level 0 through the real run wiring with a '
                       'deterministic step budget',
            TECH % 'programs x inputs x optimisation levels (differential)', '3 C02'),
    'C03': ('compile', 'every program of the template/area/dispatch/general/resume families is emitted at levels 0-2, '
                       'compiled by rustc against the number-only build and run; behaviour compared with level-0 '
                       'interpretation',
            TECH % 'programs x levels x inputs (compiled artefact vs interpreter)', '3 C03'),
    'C04': ('parse', 'all strings over class-representative alphabets up to a length bound plus pumped families for the '
                     'unbounded counters, each parsed by the real parser and compared with the reference grammar machine',
            TECH % 'input strings (all words of a finite alphabet up to length n)', '3 C04'),
    'C05': ('num', 'all ordered operand pairs over boundary-limb values up to 3 (quick) / 4 (thorough) limbs x all '
                   'operations, plus closure over live results',
            TECH % 'operand pairs x operations', '3 C05'),
    'C06': ('num', 'all ordered pairs of a rational alphabet (multi-limb, all signs, common factors, NaN) x operations, '
                   'canonical form observed through == against canonical and non-reduced spellings, closure BFS',
            TECH % 'operand pairs x operations', '3 C06'),
    'C07': ('num', 'all ordered pairs of the rational alphabet through partial_cmp/==, and area::calc on every '
                   '(shape, count, popped values) combination',
            TECH % 'operand pairs and area evaluations', '3 C07'),
    'C08': ('parse', 'all command lists of a bounded command alphabet rendered with every placement of fillers, the '
                     're-parse clause on every enumerated string, the check listing parsed back',
            TECH % 'command lists x filler placements and of input strings', '3 C08'),
    'C09': ('num', 'every base 2..36 x boundary values (b^k-1, b^k, b^k+1, repeated digits, multi-limb), and every '
                   'rational reached by closure BFS: text out, text back in',
            TECH % 'values x bases', '3 C09'),
    'C10': ('opteffects', 'all programs over an alphabet centred on stack 0/1/2 selection and pops, levels 0-2, each '
                          'optimised in a forked child with a sentinel on stdin and pipes on stdout/stderr',
            TECH % 'programs x levels under an instrumented environment', '3 C10'),
    'C11': ('debug', 'all debugger command sequences up to a length bound (no state merging) plus a deduplicated BFS '
                     'over reference debugger states; every path replayed as a script on the real debugger',
            'explicit-state BFS over the reference debugger, every path replayed on the real debugger', '3 C11'),
    'C12': ('repl', 'all cuttings of each program at command boundaries x noise lines x clear, replayed on the real '
                    'interactive interpreter; library-level incremental execution on all C01 programs',
            TECH % 'line histories (all cuttings of programs)', '3 C12'),
    'C13': ('cli', 'all byte-fragment sequences up to a length bound as file content x stdin bytes x file names x '
                   'levels through the real binary',
            TECH % 'file contents x stdin x names x levels on the real binary', '3 C13'),
    'C14': ('unicopy', 'all texts over a boundary-code-point alphabet up to a length bound and every scalar value in bulk, '
                       'through copy programs at interpreter levels 0-2 and compiled levels 0-2',
            TECH % 'input texts x configurations', '3 C14'),
}

NOTE = ('Trusted base: the Python reference models under hv/ (int/Fraction arithmetic), rustc/cargo, the OS; the real code '
        'is reached through hvshim (fork per case) and the hyeong binary, both rebuilt from /repo\'s working tree with '
        'feature verif on every invocation. Scope and caps are printed in the evidence file.')


def implemented(prop):
    eng = CHECKS[prop][0]
    path = os.path.join(VERIF, 'hv', 'eng_%s.py' % eng)
    if not os.path.exists(path):
        return False
    src = open(path).read()
    return ("'%s':" % prop) in src.split('RUNNERS')[-1]


def main():
    hooks_commit = subprocess.run(['git', '-C', '/repo', 'log', '--format=%H', '--grep=^verif hooks'],
                                  stdout=subprocess.PIPE).stdout.decode().split()
    man = {
        'version': 1,
        'setup_cmd': './check --setup',
        'hooks': {
            'guard': 'cargo feature `verif` (off by default)',
            'enable': 'hvshim depends on hyeong with features=["verif"]; the binary is built with `cargo build --release --features verif`',
            'baseline_off_cmd': 'cd /repo && cargo test --workspace --no-fail-fast --offline',
            'source_commits': hooks_commit,
            'add_only': True,
        },
        'engines': [],
        'checks': [],
        'not_applicable': [],
        'notes': 'All checks: ./check <id> --tier quick|thorough; exit 0 held / 1 VIOLATION / 2 machinery error. '
                 'Known findings and fixed defects: known_findings.json. Seeded breakages: seeded/.',
    }
    engs = {}
    for prop in sorted(CHECKS):
        eng, text, tech, ref = CHECKS[prop]
        if not implemented(prop):
            man['not_applicable'].append({'property_id': prop, 'reason': 'check still under construction in this tree '
                                          '(technique applies; see DESIGN.md section 3)'})
            continue
        engs.setdefault(eng, []).append(prop)
        man['checks'].append({
            'property_id': prop,
            'quick_cmd': './check %s --tier quick' % prop,
            'thorough_cmd': './check %s --tier thorough' % prop,
            'evidence_file': 'evidence/%s.json' % prop,
            'replay_cmd_template': './check %s --replay {path}' % prop,
            'engine': eng,
            'level_claimed': {'category': 'model_checking',
                              'text': text + '; in addition one quantity at a time (operand size, counts, depths, lengths, '
                                             'history length) is taken across a fixed ladder of sizes around 8..256 '
                                             '(thorough: ..1024 and beyond), DESIGN.md section 9.5',
                              'design_ref': 'DESIGN.md section ' + ref},
            'level_note': NOTE,
            'technique': tech,
        })
    for eng, props in sorted(engs.items()):
        man['engines'].append({'name': eng, 'path': 'hv/eng_%s.py' % eng, 'serves_properties': props,
                               'kind_free_text': 'Python explorer + reference model; implementation via shim/ (Rust) and the hyeong binary'})
    if not man['not_applicable']:
        del man['not_applicable']
    with open(os.path.join(VERIF, 'MANIFEST.json'), 'w') as f:
        json.dump(man, f, indent=1, ensure_ascii=False)
    print('checks: %s' % ' '.join(c['property_id'] for c in man['checks']))


if __name__ == '__main__':
    sys.exit(main())
