"""R-INTERP: executable definition of the hyeo-ung language (written from the property text).

Values are Fractions, NaN is None.  A program is a list of refparse.Cmd (or anything with
.kind .syl .dots .area()).  The machine state:
  stacks   dict index -> list (bottom first)
  cur      selected stack (initially 3)
  labels   dict (count, heart) -> command index
  latest   last jump source or None
  out, err text written to stdout / stderr so far
  inp, ipos  stdin text and read position
"""
from fractions import Fraction

from . import refnum as R
from . import refparse as P

UNSPEC_OUT = 1 << 32       # writing a value >= 2^32 to an output stack is unspecified
UNSPEC_COUNT = 1 << 31     # counts >= 2^31 are unspecified


class Exit(Exception):
    def __init__(self, code):
        Exception.__init__(self, 'exit %d' % code)
        self.code = code


class EncodingError(Exception):
    pass


class Unspecified(Exception):
    pass


def is_scalar(cp):
    return 0 <= cp <= 0x10FFFF and not (0xD800 <= cp <= 0xDFFF)


class Machine(object):
    def __init__(self, prog, inp=''):
        self.prog = prog
        self.trees = [c.area() for c in prog]
        self.stacks = {}
        self.cur = 3
        self.labels = {}
        self.latest = None
        self.out = []
        self.err = []
        self.inp = inp
        self.ipos = 0
        self.value_horizon = None   # optional bit-length horizon: Unspecified beyond it
        self.reads = 0
        self._k = None
        self.fwd_jumps = 0      # label / ♡ jumps to a later command (statistics for program generators)
        self.back_jumps = 0
        self.returns = 0        # jumps taken through ♡

    def clone(self):
        m = Machine.__new__(Machine)
        m.prog = self.prog
        m.trees = self.trees
        m.stacks = {k: list(v) for k, v in self.stacks.items() if v}
        m.cur = self.cur
        m.labels = dict(self.labels)
        m.latest = self.latest
        m.out = list(self.out)
        m.err = list(self.err)
        m.inp = self.inp
        m.ipos = self.ipos
        m.value_horizon = self.value_horizon
        m.reads = self.reads
        m._k = None
        m.fwd_jumps = self.fwd_jumps
        m.back_jumps = self.back_jumps
        m.returns = self.returns
        return m

    # ---- observation
    def out_text(self):
        return ''.join(self.out)

    def err_text(self):
        return ''.join(self.err)

    def snapshot(self):
        """canonical observable state: (selected stack, non-empty stacks as text)"""
        return (self.cur, tuple(sorted((k, tuple(R.num_text(x) for x in v)) for k, v in self.stacks.items() if v)))

    def key(self):
        return (self.snapshot(), tuple(sorted(self.labels.items())), self.latest, self.out_text(), self.err_text(), self.ipos)

    # ---- stacks
    def push(self, i, v):
        if i == 1 or i == 2:
            sink = self.out if i == 1 else self.err
            if v is not None and v >= 0:
                cp = v.numerator // v.denominator
                if cp >= UNSPEC_OUT:
                    raise Unspecified('output value >= 2^32')
                if not is_scalar(cp):
                    raise EncodingError(cp)
                sink.append(chr(cp))
            else:
                sink.append(R.num_text(R.n_neg(v)))
            return
        st = self.stacks.setdefault(i, [])
        if v is None and not st:
            return
        if v is not None and self.value_horizon is not None:
            if max(abs(v.numerator).bit_length(), v.denominator.bit_length()) > self.value_horizon:
                raise Unspecified('value horizon')
        st.append(v)

    def pop(self, i):
        if i == 1:
            raise Exit(0)
        if i == 2:
            raise Exit(1)
        st = self.stacks.setdefault(i, [])
        if i == 0 and not st:
            # one line, terminator included; nothing at end of input
            self.reads += 1
            j = self.inp.find('\n', self.ipos)
            line = self.inp[self.ipos:] if j < 0 else self.inp[self.ipos:j + 1]
            self.ipos += len(line)
            for ch in reversed(line):
                st.append(Fraction(ord(ch)))
        if st:
            return st.pop()
        return None

    # ---- one command
    def step(self, idx):
        c = self.prog[idx]
        cur = self.cur
        syl, dots = c.syl, c.dots
        count = syl * dots
        if count >= UNSPEC_COUNT or syl >= UNSPEC_COUNT or dots >= UNSPEC_COUNT:
            raise Unspecified('count >= 2^31')
        k = c.kind
        if k == 0:
            self.push(cur, Fraction(count))
        elif k == 1:
            n = Fraction(0)
            for _ in range(syl):
                n = R.n_add(n, self.pop(cur))
            self.push(dots, n)
        elif k == 2:
            n = Fraction(1)
            for _ in range(syl):
                n = R.n_mul(n, self.pop(cur))
            self.push(dots, n)
        elif k == 3 or k == 4:
            vs = [self.pop(cur) for _ in range(syl)]
            vs.reverse()
            n = Fraction(0) if k == 3 else Fraction(1)
            for x in vs:
                x = R.n_neg(x) if k == 3 else R.n_flip(x)
                n = R.n_add(n, x) if k == 3 else R.n_mul(n, x)
                self.push(cur, x)
            self.push(dots, n)
        else:
            n = self.pop(cur)
            for _ in range(syl):
                self.push(dots, n)
            self.push(cur, n)
            self.cur = dots
        # area
        tree = self.trees[idx]
        cur = self.cur
        while isinstance(tree, tuple):
            v = self.pop(cur)
            if tree[0] == '?':
                left = v is not None and v < count
            else:
                left = v is not None and v == count
            tree = tree[1] if left else tree[2]
        if tree is None:
            return idx + 1
        if tree == '♡':
            if self.latest is None:
                return idx + 1
            self.returns += 1
            if self.latest > idx:
                self.fwd_jumps += 1
            else:
                self.back_jumps += 1
            return self.latest
        lab = (count, tree)
        t = self.labels.get(lab)
        if t is None:
            self.labels[lab] = idx
            return idx + 1
        if t != idx:
            self.latest = idx
            if t > idx:
                self.fwd_jumps += 1
            else:
                self.back_jumps += 1
            return t
        return idx + 1


def run(prog, inp='', max_steps=10000, horizon=None):
    """Runs to the end.  Returns (end, machine, steps) with end in
    'end' | 'exit0' | 'exit1' | 'encoding' | 'budget' | 'unspecified'."""
    m = Machine(prog, inp)
    m.value_horizon = horizon
    idx = 0
    steps = 0
    try:
        while idx < len(prog):
            if steps >= max_steps:
                return 'budget', m, steps
            idx = m.step(idx)
            steps += 1
        return 'end', m, steps
    except Exit as e:
        return 'exit%d' % e.code, m, steps
    except EncodingError:
        return 'encoding', m, steps
    except Unspecified:
        return 'unspecified', m, steps


def parse_state_debug(text):
    """the implementation's `{:?}` of UnOptState -> (cur, tuple of (idx, tuple of value texts)) (empty stacks dropped)"""
    lines = text.split('\n')
    assert lines[0].startswith('current stack: '), text
    cur = int(lines[0][len('current stack: '):])
    stacks = []
    for l in lines[1:]:
        if not l:
            continue
        assert l.startswith('stack '), text
        head, _, body = l.partition(': ')
        idx = int(head[6:])
        body = body.strip()
        assert body.startswith('[') and body.endswith(']'), text
        inner = body[1:-1]
        vals = tuple(inner.split(', ')) if inner else ()
        if vals:
            stacks.append((idx, vals))
    return (cur, tuple(sorted(stacks)))


def program(text):
    return P.parse(text)
