"""R-NUM: the numeric reference model (Python int / Fraction; NaN is None)."""
from fractions import Fraction
from math import gcd

NAN_TEXT = '너무 커엇...'
DIGITS = '0123456789ABCDEFGHIJKLMNOPQRSTUVWXYZ'
B32 = 1 << 32


def trunc_div(a, b):
    q = abs(a) // abs(b)
    return q if (a >= 0) == (b >= 0) else -q


def trunc_rem(a, b):
    return a - trunc_div(a, b) * b


def to_limbs(n):
    """little-endian 32-bit limbs of |n| (normal form: no leading zero limb, zero = [0])"""
    n = abs(n)
    v = []
    while True:
        v.append(n & 0xFFFFFFFF)
        n >>= 32
        if n == 0:
            return v


def from_limbs(v):
    n = 0
    for i, x in enumerate(v):
        n += x << (32 * i)
    return n


def lit(n):
    """shim literal for the integer n"""
    return ('-' if n < 0 else '') + ','.join(str(x) for x in to_limbs(n))


def to_base(n, b):
    if n == 0:
        return '0'
    s = []
    m = abs(n)
    while m:
        s.append(DIGITS[m % b])
        m //= b
    if n < 0:
        s.append('-')
    return ''.join(reversed(s))


def num_text(v):
    """canonical text of a rational (Fraction) or NaN (None)"""
    if v is None:
        return NAN_TEXT
    if v.denominator == 1:
        return str(v.numerator)
    return '%d/%d' % (v.numerator, v.denominator)


def parse_num_text(s):
    if s == NAN_TEXT:
        return None
    if '/' in s:
        p, q = s.split('/')
        return Fraction(int(p), int(q))
    return Fraction(int(s))


def n_add(a, b):
    if a is None or b is None:
        return None
    return a + b


def n_mul(a, b):
    if a is None or b is None:
        return None
    return a * b


def n_neg(a):
    return None if a is None else -a


def n_flip(a):
    if a is None or a == 0:
        return None
    return 1 / a


def n_cmp(a, b):
    """'L' 'E' 'G' or 'N' (unordered)"""
    if a is None or b is None:
        return 'N'
    return 'L' if a < b else ('E' if a == b else 'G')


def floor_nonneg(a):
    return a.numerator // a.denominator
