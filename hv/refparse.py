"""R-PARSE: reference definition of the hyeo-ung grammar, written from the property text.

A text is a sequence of characters.  Unicode white space is skipped everywhere; a line feed
advances the line.  A command starts at a one-character command (형 항 핫 흣 흡 흑) or at a start
syllable (혀 하 흐) whose class of end syllable occurs later in the text.  Inside an open
multi-syllable command every Hangul syllable counts and the first end syllable of the class
closes it.  After the syllables: dots ('.' = 1, '… ⋯ ⋮' = 3) until the first area character;
then '?', '!' and the twelve hearts are the area tokens.  Everything else is ignored, and so
is everything before the first command.
"""

WS = set(map(chr, [9, 10, 11, 12, 13, 0x20, 0x85, 0xA0, 0x1680, 0x2028, 0x2029, 0x202F, 0x205F, 0x3000]
             + list(range(0x2000, 0x200B))))
ONE = {'형': 0, '항': 1, '핫': 2, '흣': 3, '흡': 4, '흑': 5}
START = {'혀': 0, '하': 1, '흐': 2}
END = {'엉': (0, 0), '앙': (1, 1), '앗': (1, 2), '읏': (2, 3), '읍': (2, 4), '윽': (2, 5)}
DOTS = {'.': 1, '…': 3, '⋯': 3, '⋮': 3}
HEARTS = '♥❤💕💖💗💘💙💚💛💜💝♡'
HEARTSET = set(HEARTS)
AREA = HEARTSET | {'?', '!'}
KIND_NAMES = '형항핫흣흡흑'
# how a multi-syllable command of each kind is spelt: start syllable, filler, end syllable
SPELL = {0: ('혀', '어', '엉'), 1: ('하', '아', '앙'), 2: ('하', '아', '앗'),
         3: ('흐', '으', '읏'), 4: ('흐', '으', '읍'), 5: ('흐', '으', '윽')}


def is_hangul(c):
    return '가' <= c <= '힣'


class Cmd(object):
    __slots__ = ('kind', 'syl', 'dots', 'tokens', 'line', 'col', 'raw', 'start', 'end', 'cls')

    def __init__(self, kind, cls, line, col, first, start):
        self.kind = kind
        self.cls = cls
        self.syl = 1
        self.dots = 0
        self.tokens = []
        self.line = line
        self.col = col
        self.raw = [first]
        self.start = start
        self.end = None

    @property
    def count(self):
        return self.syl * self.dots

    def area(self):
        return area_tree(self.tokens)

    def render(self):
        """same format as the shim's render_code"""
        return '%d:%d:%d:%d:%d:%s:%s' % (self.kind, self.syl, self.dots, self.line, self.col,
                                          area_prefix(self.area()), ''.join(self.raw))

    def key(self):
        return (self.kind, self.syl, self.dots, area_prefix(self.area()))


# ---- area trees: ('?', L, R) | ('!', L, R) | heart char | None

def _bang_tree(piece):
    # piece: list of tokens without '?'
    slots = [[]]
    for t in piece:
        if t == '!':
            slots.append([])
        else:
            slots[-1].append(t)
    leaves = [s[0] if s else None for s in slots]
    tree = leaves[-1]
    for leaf in reversed(leaves[:-1]):
        tree = ('!', leaf, tree)
    return tree


def area_tree(tokens):
    pieces = [[]]
    for t in tokens:
        if t == '?':
            pieces.append([])
        else:
            pieces[-1].append(t)
    trees = [_bang_tree(p) for p in pieces]
    tree = trees[-1]
    for t in reversed(trees[:-1]):
        tree = ('?', t, tree)
    return tree


def area_prefix(tree):
    out = []
    stack = [tree]
    while stack:
        t = stack.pop()
        if t is None:
            out.append('_')
        elif isinstance(t, tuple):
            out.append(t[0])
            stack.append(t[2])
            stack.append(t[1])
        else:
            out.append(t)
    return ''.join(out)


def area_infix(tree):
    if tree is None:
        return '_'
    if isinstance(tree, tuple):
        return '[%s]%s[%s]' % (area_infix(tree[1]), tree[0], area_infix(tree[2]))
    return tree


def parse_prefix(s):
    """inverse of area_prefix (for reading the implementation's Debug rendering)"""
    pos = [0]

    def rec():
        c = s[pos[0]]
        pos[0] += 1
        if c == '_':
            return None
        if c in '?!':
            l = rec()
            r = rec()
            return (c, l, r)
        return c
    t = rec()
    assert pos[0] == len(s)
    return t


def parse_infix(s):
    """independent bracket parser for the `check` listing: [L]?[R] | heart | _"""
    pos = [0]

    def rec():
        if s[pos[0]] == '[':
            pos[0] += 1
            l = rec()
            assert s[pos[0]] == ']'
            pos[0] += 1
            op = s[pos[0]]
            assert op in '?!'
            pos[0] += 1
            assert s[pos[0]] == '['
            pos[0] += 1
            r = rec()
            assert s[pos[0]] == ']'
            pos[0] += 1
            return (op, l, r)
        c = s[pos[0]]
        pos[0] += 1
        return None if c == '_' else c
    t = rec()
    assert pos[0] == len(s), s
    return t


# configurations of the reference machine seen so far (for the model-checking evidence)
CONFIGS = set()
TRANSITIONS = set()
TRACK = [False]


def char_class(c):
    if c in WS:
        return 'nl' if c == '\n' else 'ws'
    if c in ONE:
        return 'one'
    if c in START:
        return 'start%d' % START[c]
    if c in END:
        return 'end%d' % END[c][0]
    if is_hangul(c):
        return 'hangul'
    if c in DOTS:
        return 'dot'
    if c == '?' or c == '!':
        return c
    if c in HEARTSET:
        return 'heart'
    return 'other'


def parse(text):
    last_end = [-1, -1, -1]
    for i, c in enumerate(text):
        e = END.get(c)
        if e is not None:
            last_end[e[0]] = i
    res = []
    cur = None
    mode = 0  # 0 idle (no command yet), 1 syllables, 2 dots, 3 area
    line = 1
    line_start = 0
    track = TRACK[0]
    for i, c in enumerate(text):
        if track:
            cfg = (mode, cur.cls if (cur is not None and mode == 1) else -1,
                   min(len(cur.tokens), 2) if cur is not None else 0,
                   (cur.tokens[-1] if cur.tokens[-1] in '?!' else 'h') if (cur is not None and cur.tokens) else '')
            CONFIGS.add(cfg)
            TRANSITIONS.add((cfg, char_class(c)))
        if c in WS:
            if c == '\n':
                line += 1
                line_start = i + 1
            continue
        if mode == 1:
            if is_hangul(c):
                cur.syl += 1
                cur.raw.append(c)
                e = END.get(c)
                if e is not None and e[0] == cur.cls:
                    cur.kind = e[1]
                    mode = 2
            continue
        k = ONE.get(c)
        if k is not None:
            if cur is not None:
                cur.end = i
                res.append(cur)
            cur = Cmd(k, -1, line, i - line_start, c, i)
            mode = 2
            continue
        s = START.get(c)
        if s is not None:
            if last_end[s] > i:
                if cur is not None:
                    cur.end = i
                    res.append(cur)
                cur = Cmd(-1, s, line, i - line_start, c, i)
                mode = 1
            continue
        if mode == 0:
            continue
        d = DOTS.get(c)
        if d is not None:
            if mode == 2:
                cur.dots += d
                cur.raw.append(c)
            continue
        if c in AREA:
            cur.tokens.append(c)
            cur.raw.append(c)
            mode = 3
    if cur is not None:
        cur.end = len(text)
        res.append(cur)
    return res


def render(cmds):
    return ';'.join(c.render() for c in cmds)


def is_subsequence(small, big):
    it = iter(big)
    return all(ch in it for ch in small)


# ---- rendering command descriptions back to text (used by C08 and by program generators)

def spell_syllables(kind, syl):
    if syl == 1:
        return KIND_NAMES[kind]
    a, m, z = SPELL[kind]
    return a + m * (syl - 2) + z


def spell_dots(d, ellipsis=False):
    if ellipsis:
        return '…' * (d // 3) + '.' * (d % 3)
    return '.' * d


def tree_tokens(tree):
    """token string of a grammar-shaped tree (left child of '?' has no '?', of '!' is a leaf)"""
    if tree is None:
        return ''
    if isinstance(tree, tuple):
        return tree_tokens(tree[1]) + tree[0] + tree_tokens(tree[2])
    return tree


def spell(kind, syl, dots, tree=None, ellipsis=False):
    return spell_syllables(kind, syl) + spell_dots(dots, ellipsis) + tree_tokens(tree)
