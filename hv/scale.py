"""Size ladders: the same operations as everywhere else, with one quantity (operands popped, stack depth, stack index,
label count, program length, loop iterations, history length) taken across the sizes at which a width, a buffer, a
small-size special case or an amortised clean-up would switch: 8, 16, 32, 64, 128, 256, 1024 (each with its two
neighbours).  Everything is still decided by the reference models; nothing here knows what a failure would look like."""
from fractions import Fraction

from . import refparse as P

LADDER = [7, 8, 9, 15, 16, 17, 31, 32, 33, 63, 64, 65, 127, 128, 129, 255, 256, 257]
LADDER_LONG = LADDER + [511, 512, 513, 1023, 1024, 1025]
P65 = '혀어어어어어어어어어어어어엉.....'          # 13 * 5 = 65 = 'A'


def dots(k):
    return '.' * k


def loop_program(K, op='!', heart='💕'):
    """prints 1..K as decimal text; K-1 backward jumps (K = 0: never terminates)"""
    return '형 흣%s%s 형. 하앙... 흣. 흑... 흣%s%s%s' % (dots(K), heart, dots(K), op, heart)


def onestep_scale(tier):
    """one command from a constructed state: (text, start, pre, stdin) like eng_exec.onestep_cases"""
    cases = []
    vals_add = [Fraction(1), Fraction(2), Fraction(-1), Fraction(1, 2), Fraction(3)]
    vals_mul = [Fraction(1), Fraction(2), Fraction(-1), Fraction(1, 2)]
    lad = LADDER if tier == 'quick' else LADDER_LONG
    for n in lad:
        for kind in (1, 2, 3, 4):
            vs = vals_mul if kind in (2, 4) else vals_add
            for depth in (n - 1, n, n + 1):
                c = [vs[i % len(vs)] for i in range(depth)]
                for d in (3, 4):
                    cases.append((P.spell(kind, n, d), 0, {'stacks': {3: c}, 'cur': 3}, ''))
        # n copies; n as a stack index; n * n as a value
        cases.append((P.spell(5, n, 4), 0, {'stacks': {3: [Fraction(5), Fraction(7)]}, 'cur': 3}, ''))
        cases.append((P.spell(5, 2, n), 0, {'stacks': {3: [Fraction(5), Fraction(7)]}, 'cur': 3}, ''))
        cases.append((P.spell(1, 2, n), 0, {'stacks': {3: [Fraction(5), Fraction(7)], n: [Fraction(1)]}, 'cur': 3}, ''))
        cases.append((P.spell(3, 1, 3), 0, {'stacks': {n: [Fraction(5), Fraction(7)]}, 'cur': n}, ''))
        cases.append((P.spell(0, n, n), 0, {'stacks': {3: []}, 'cur': 3}, ''))
        # text arriving on the input stack: n characters on one line, popped n at a time
        cases.append((P.spell(1, 2, 1), 0, {'stacks': {0: []}, 'cur': 0}, 'x' * n + '\ny'))
        cases.append((P.spell(3, n, 4), 0, {'stacks': {0: []}, 'cur': 0}, '가' * (n - 1) + '\n'))
    for (s, d) in ((65535, 1), (65536, 1), (1, 65537), (65536, 65536), (65537, 65535), (46341, 46341)):
        cases.append((P.spell(0, s, d), 0, {'stacks': {3: []}, 'cur': 3}, ''))
    return cases


def label_scale():
    """(text, pre) for three steps: the label's count is a product; equal products are the same label"""
    out = []
    for (s1, d1, s2, d2) in ((1, 256, 16, 16), (16, 16, 1, 256), (1, 255, 1, 256), (1, 65536, 256, 256), (256, 256, 1, 65536),
                             (1, 65535, 1, 65536), (2, 32768, 1, 65536), (1, 17, 17, 1), (1, 4096, 64, 64)):
        for h1, h2 in (('♥', '♥'), ('♥', '💕')):
            if d2 == 0:
                continue
            out.append('%s%s %s%s' % (P.spell(0, s1, d1), h1, P.spell(0, s2, d2), h2))
    return out


def deep_program(kind, n, depth):
    pushes = ' '.join('형' + dots(1 + i % 3) for i in range(depth))
    return '%s %s 흣. 항. 항. 항.' % (pushes, P.spell(kind, n, 3))


def many_labels(L, K, heart='💖', same_heart=False):
    """L labels registered once each, then a counted loop over one more label"""
    labs = []
    c = 0
    while len(labs) < L:
        c += 1
        if same_heart and c == K:
            continue
        labs.append('형' + dots(c) + ('💕' if same_heart else heart))
    return ' '.join(labs) + ' ' + loop_program(K)


def straight(n):
    """n commands without jumps; prints a character every second command, a number now and then"""
    out = []
    for i in range(n // 2):
        if i % 50 == 49:
            out.append('형.. 흣.')
        else:
            out.append('%s 항.' % P65)
    return ' '.join(out)


def scale_programs(tier):
    q = tier == 'quick'
    out = []
    for n in ((16, 17, 64, 65, 256, 257) if q else LADDER):
        for kind in (1, 2, 3, 4):
            out.append(deep_program(kind, n, n))
            out.append(deep_program(kind, n, n + 2))
        out.append(deep_program(1, n, n - 1))
        # n copies to another stack, printed from there
        out.append('%s %s %s' % (P65, P.spell(5, n, 4), ' '.join(['항.'] * (n + 1))))
    for L in ((16, 17, 64, 65, 256, 257) if q else LADDER):
        out.append(many_labels(L, 7))
        out.append(many_labels(L, 5, same_heart=True))
    for n in ((256, 1024, 1026, 2050) if q else (254, 256, 258, 512, 1022, 1024, 1026, 2046, 2048, 2050, 2600)):
        out.append(straight(n))
    for K in ((128, 129, 171, 256, 342) if q else (64, 65, 128, 129, 170, 171, 172, 256, 257, 341, 342, 400)):
        out.append(loop_program(K))            # 6 K + 2 steps: 171 iterations cross 1024 executed commands
    # many stacks in use at once
    for n in ((17, 65, 257) if q else LADDER):
        sel = ' '.join('형.. 흑%s' % dots(i) for i in range(4, n + 1))
        out.append('%s 형... 흣. %s' % (sel, ' '.join('흑%s 항.' % dots(i) for i in range(n, 3, -7))))
    return out
