// hvshim: conformance adapter between the Python explorers and the real hyeong code.
//
// Line protocol on fd 0 (requests) / fd 1 (responses); fields separated by TAB, binary
// fields hex-encoded.  The parent never touches std::io::stdin()/stdout() so that a forked
// child starts with pristine std handles.  Whenever the real code may call process::exit,
// panic, or overflow the stack, the case runs in a forked child whose fds 0/1/2/3 are memfds.
use hyeong::core::area;
use hyeong::core::code::{Code, UnOptCode};
use hyeong::core::state::{State, UnOptState};
use hyeong::core::{compile, execute, optimize, parse};
use hyeong::number::big_number::BigNum;
use hyeong::number::num::Num;
use hyeong::util::error::Error;
use hyeong::util::io::{self as hio, CustomWriter, ReadLine};
use hyeong::util::option::HyeongOption;
use std::cmp::Ordering;
use std::fs::File;
use std::io::{BufRead, BufReader, BufWriter, Read, Seek, SeekFrom, Write};
use std::mem::ManuallyDrop;
use std::os::unix::io::FromRawFd;
use std::panic::{catch_unwind, AssertUnwindSafe};
use std::path::PathBuf;
use termcolor::{ColorChoice, StandardStream};

// ---------------------------------------------------------------- helpers

const WATCHDOG_S: u32 = 15;

fn hex(b: &[u8]) -> String {
    const T: &[u8; 16] = b"0123456789abcdef";
    let mut s = String::with_capacity(b.len() * 2);
    for x in b {
        s.push(T[(x >> 4) as usize] as char);
        s.push(T[(x & 15) as usize] as char);
    }
    s
}

fn unhex(s: &str) -> Vec<u8> {
    let b = s.as_bytes();
    let mut v = Vec::with_capacity(b.len() / 2);
    let d = |c: u8| -> u8 {
        match c {
            b'0'..=b'9' => c - b'0',
            b'a'..=b'f' => c - b'a' + 10,
            _ => 0,
        }
    };
    let mut i = 0;
    while i + 1 < b.len() {
        v.push((d(b[i]) << 4) | d(b[i + 1]));
        i += 2;
    }
    v
}

fn unhex_str(s: &str) -> String {
    String::from_utf8(unhex(s)).expect("utf8 field")
}

fn panic_msg(e: Box<dyn std::any::Any + Send>) -> String {
    if let Some(s) = e.downcast_ref::<&str>() {
        s.to_string()
    } else if let Some(s) = e.downcast_ref::<String>() {
        s.clone()
    } else {
        String::from("?")
    }
}

fn raw_file(fd: i32) -> ManuallyDrop<File> {
    ManuallyDrop::new(unsafe { File::from_raw_fd(fd) })
}

fn write_fd(fd: i32, data: &[u8]) {
    let mut f = raw_file(fd);
    let _ = f.write_all(data);
}

// ---------------------------------------------------------------- fork server

struct ChildResult {
    status: String,
    out: Vec<u8>,
    err: Vec<u8>,
    extra: Vec<u8>,
    in_off: i64,
}

fn memfd(name: &str) -> i32 {
    let c = std::ffi::CString::new(name).unwrap();
    let fd = unsafe { libc::memfd_create(c.as_ptr(), 0) };
    assert!(fd >= 0, "memfd_create");
    let hi = unsafe { libc::fcntl(fd, libc::F_DUPFD, 100) };
    assert!(hi >= 100, "F_DUPFD");
    unsafe { libc::close(fd) };
    hi
}

fn slurp(fd: i32) -> Vec<u8> {
    let mut f = raw_file(fd);
    let mut v = Vec::new();
    let _ = f.seek(SeekFrom::Start(0));
    let _ = f.read_to_end(&mut v);
    v
}

/// Runs `f` in a forked child: fd 0 = memfd holding `stdin`, fds 1/2/3 = empty memfds.
fn fork_run<F: FnOnce()>(stdin: &[u8], timeout_s: u32, f: F) -> ChildResult {
    let fin = memfd("in");
    let fout = memfd("out");
    let ferr = memfd("err");
    let fext = memfd("ext");
    {
        let mut w = raw_file(fin);
        w.write_all(stdin).unwrap();
        w.seek(SeekFrom::Start(0)).unwrap();
    }
    let pid = unsafe { libc::fork() };
    assert!(pid >= 0, "fork");
    if pid == 0 {
        unsafe {
            libc::dup2(fin, 0);
            libc::dup2(fout, 1);
            libc::dup2(ferr, 2);
            libc::dup2(fext, 3);
            libc::close(fin);
            libc::close(fout);
            libc::close(ferr);
            libc::close(fext);
            libc::prctl(libc::PR_SET_PDEATHSIG, libc::SIGKILL);
            libc::alarm(timeout_s);
        }
        let r = catch_unwind(AssertUnwindSafe(f));
        match r {
            Ok(()) => std::process::exit(0),
            Err(_) => unsafe { libc::_exit(101) },
        }
    }
    let mut st: i32 = 0;
    loop {
        let r = unsafe { libc::waitpid(pid, &mut st, 0) };
        if r == pid {
            break;
        }
        if r < 0 {
            let e = std::io::Error::last_os_error();
            if e.kind() == std::io::ErrorKind::Interrupted {
                continue;
            }
            panic!("waitpid: {}", e);
        }
    }
    let status = if libc::WIFEXITED(st) {
        format!("exit={}", libc::WEXITSTATUS(st))
    } else if libc::WIFSIGNALED(st) {
        format!("sig={}", libc::WTERMSIG(st))
    } else {
        format!("raw={}", st)
    };
    let in_off = unsafe { libc::lseek(fin, 0, libc::SEEK_CUR) } as i64;
    let res = ChildResult {
        status,
        out: slurp(fout),
        err: slurp(ferr),
        extra: slurp(fext),
        in_off,
    };
    unsafe {
        libc::close(fin);
        libc::close(fout);
        libc::close(ferr);
        libc::close(fext);
    }
    res
}

fn child_line(r: &ChildResult) -> String {
    format!(
        "{}\t{}\t{}\t{}\t{}",
        r.status,
        hex(&r.out),
        hex(&r.err),
        hex(&r.extra),
        r.in_off
    )
}

// ---------------------------------------------------------------- stdin model for library-level runs

/// Line reader over a fixed text that behaves like `Stdin::read_line`: terminator kept,
/// last line may be unterminated, "" at end of input.
struct TextReader {
    data: Vec<char>,
    pos: usize,
}

impl TextReader {
    fn new(s: &str) -> TextReader {
        TextReader {
            data: s.chars().collect(),
            pos: 0,
        }
    }
}

impl ReadLine for TextReader {
    fn read_line_(&mut self) -> Result<String, Error> {
        let mut s = String::new();
        while self.pos < self.data.len() {
            let c = self.data[self.pos];
            self.pos += 1;
            s.push(c);
            if c == '\n' {
                break;
            }
        }
        Ok(s)
    }
}

// ---------------------------------------------------------------- parse

fn render_code(c: &UnOptCode) -> String {
    format!(
        "{}:{}:{}:{}:{}:{:?}:{}",
        c.get_type(),
        c.get_hangul_count(),
        c.get_dot_count(),
        c.get_location().0,
        c.get_location().1,
        c.get_area(),
        c.get_raw()
    )
}

fn render_codes(v: &[UnOptCode]) -> String {
    v.iter().map(render_code).collect::<Vec<_>>().join(";")
}

fn render_code_noloc(c: &UnOptCode) -> String {
    format!(
        "{}:{}:{}:{:?}",
        c.get_type(),
        c.get_hangul_count(),
        c.get_dot_count(),
        c.get_area()
    )
}

/// parse(s), plus the re-parse clause: parse(concat(raw_i)) has the same commands
/// (kind, counts, area), and raw_i of the re-parse equals raw_i.
fn parse_line(s: &str, with_display: bool) -> String {
    let r = catch_unwind(|| {
        let v = parse::parse(s.to_string());
        let cat: String = v.iter().map(|c| c.get_raw()).collect();
        let w = parse::parse(cat);
        let same = v.len() == w.len()
            && v.iter().zip(w.iter()).all(|(a, b)| {
                render_code_noloc(a) == render_code_noloc(b) && a.get_raw() == b.get_raw()
            });
        let mut line = render_codes(&v);
        line.push('|');
        line.push(if same { '1' } else { '0' });
        if with_display {
            line.push('|');
            line.push_str(
                &v.iter()
                    .map(|c| format!("{}", c.get_area()))
                    .collect::<Vec<_>>()
                    .join(";"),
            );
        }
        line
    });
    match r {
        Ok(l) => l,
        Err(e) => format!("PANIC {}", panic_msg(e).replace('\n', " ")),
    }
}

/// all strings prefix ++ w, w in alphabet^rest, odometer order (last position fastest)
fn parse_bulk(out: &mut impl Write, alphabet: &[String], prefix: &str, rest: usize) {
    let n = alphabet.len();
    let mut idx = vec![0usize; rest];
    let mut count = 0u64;
    loop {
        let mut s = String::from(prefix);
        for &i in &idx {
            s.push_str(&alphabet[i]);
        }
        let l = parse_line(&s, false);
        out.write_all(l.as_bytes()).unwrap();
        out.write_all(b"\n").unwrap();
        count += 1;
        if count % 4096 == 0 {
            // the watchdog limits one parse, not the whole enumeration
            unsafe {
                libc::alarm(WATCHDOG_S);
            }
        }
        // increment
        let mut k = rest;
        loop {
            if k == 0 {
                writeln!(out, "END {}", count).unwrap();
                return;
            }
            k -= 1;
            idx[k] += 1;
            if idx[k] < n {
                break;
            }
            idx[k] = 0;
        }
    }
}

// ---------------------------------------------------------------- numbers (register machine)

fn parse_limbs(s: &str) -> Vec<u32> {
    if s.is_empty() {
        return vec![];
    }
    s.split(',').map(|x| x.parse::<u32>().unwrap()).collect()
}

/// literal: [-]l0,l1,... (little endian limbs) built through from_vec (+ neg)
fn big_lit(s: &str) -> BigNum {
    if let Some(rest) = s.strip_prefix('-') {
        -&BigNum::from_vec(parse_limbs(rest))
    } else {
        BigNum::from_vec(parse_limbs(s))
    }
}

fn ord_str(o: Option<Ordering>) -> &'static str {
    match o {
        Some(Ordering::Less) => "L",
        Some(Ordering::Equal) => "E",
        Some(Ordering::Greater) => "G",
        None => "N",
    }
}

fn big_obs(b: &BigNum) -> String {
    format!(
        "{} {} {} {}",
        b,
        b.is_pos() as u8,
        b.is_zero() as u8,
        b.to_int()
    )
}

fn num_obs(n: &Num) -> String {
    // text may contain spaces only for NaN; use '|' separators
    format!("{}|{}|{}", n, n.is_pos() as u8, n.is_nan() as u8)
}

struct Regs {
    b: Vec<BigNum>,
    n: Vec<Num>,
}

fn setreg<T: Clone>(v: &mut Vec<T>, i: usize, x: T, fill: T) {
    while v.len() <= i {
        v.push(fill.clone());
    }
    v[i] = x;
}

/// One numeric command.  Returns the response line.
fn num_cmd(regs: &mut Regs, f: &[&str]) -> String {
    let u = |i: usize| -> usize { f[i].parse::<usize>().unwrap() };
    match f[0] {
        // ---- BigNum
        "bset" => {
            // bset K literal
            let x = big_lit(f[2]);
            let o = big_obs(&x);
            setreg(&mut regs.b, u(1), x, BigNum::zero());
            o
        }
        "bnew" => {
            // bnew K isize
            let x = BigNum::new(f[2].parse::<isize>().unwrap());
            let o = big_obs(&x);
            setreg(&mut regs.b, u(1), x, BigNum::zero());
            o
        }
        "bconst" => {
            // bconst K zero|one : the named constants
            let x = if f[2] == "zero" { BigNum::zero() } else { BigNum::one() };
            let o = big_obs(&x);
            setreg(&mut regs.b, u(1), x, BigNum::zero());
            o
        }
        "bstr" => {
            // bstr K base text  (from_string_base)
            match BigNum::from_string_base(f[3].to_string(), u(2)) {
                Ok(x) => {
                    let o = big_obs(&x);
                    setreg(&mut regs.b, u(1), x, BigNum::zero());
                    o
                }
                Err(e) => format!("ERR {:?}", e),
            }
        }
        "bop" => {
            // bop OP I J K EXPECT [d] : rK = rI op rJ ; also the in-place variant on a clone.
            // -> eq eqrev eqneg is_pos is_zero to_int same [text]
            let a = regs.b[u(2)].clone();
            let b = regs.b[u(3)].clone();
            let (pure, inplace) = match f[1] {
                "add" => {
                    let mut c = a.clone();
                    c += &b;
                    (&a + &b, c)
                }
                "sub" => {
                    let mut c = a.clone();
                    c -= &b;
                    (&a - &b, c)
                }
                "mul" => {
                    let mut c = a.clone();
                    c *= &b;
                    (&a * &b, c)
                }
                "div" => {
                    let mut c = a.clone();
                    c /= &b;
                    (&a / &b, c)
                }
                "rem" => {
                    let mut c = a.clone();
                    c %= &b;
                    (&a % &b, c)
                }
                "gcd" => {
                    let g = BigNum::gcd(&a, &b);
                    (g.clone(), g)
                }
                _ => return String::from("ERR op"),
            };
            let same = pure == inplace
                && pure.is_pos() == inplace.is_pos()
                && pure.is_zero() == inplace.is_zero()
                && pure.to_int() == inplace.to_int();
            let e = big_lit(f[5]);
            let ne = -&e;
            let mut o = format!(
                "{} {} {} {} {} {} {}",
                (pure == e) as u8,
                (e == pure) as u8,
                (pure == ne) as u8,
                pure.is_pos() as u8,
                pure.is_zero() as u8,
                pure.to_int(),
                same as u8
            );
            if f.len() > 6 {
                o.push(' ');
                o.push_str(&format!("{}", pure));
            }
            setreg(&mut regs.b, u(4), pure, BigNum::zero());
            o
        }
        "bchk" => {
            // bchk I EXPECT -> eq eqrev is_pos is_zero to_int
            let a = &regs.b[u(1)];
            let e = big_lit(f[2]);
            format!(
                "{} {} {} {} {}",
                (a == &e) as u8,
                (&e == a) as u8,
                a.is_pos() as u8,
                a.is_zero() as u8,
                a.to_int()
            )
        }
        "bun" => {
            // bun OP I K : neg | minus
            let a = regs.b[u(2)].clone();
            let r = match f[1] {
                "neg" => -&a,
                "minus" => {
                    let mut c = a.clone();
                    c.minus();
                    c
                }
                _ => return String::from("ERR op"),
            };
            let o = big_obs(&r);
            setreg(&mut regs.b, u(3), r, BigNum::zero());
            o
        }
        "bcmp" => {
            // bcmp I J -> eq ord
            let a = &regs.b[u(1)];
            let b = &regs.b[u(2)];
            format!("{} {}", (a == b) as u8, ord_str(a.partial_cmp(b)))
        }
        "bobs" => big_obs(&regs.b[u(1)]),
        "bbase" => {
            // bbase I base -> text, and from_string_base(text) == rI
            let a = &regs.b[u(1)];
            match a.to_string_base(u(2)) {
                Ok(t) => match BigNum::from_string_base(t.clone(), u(2)) {
                    Ok(back) => format!(
                        "{} {} {}",
                        t,
                        (&back == a) as u8,
                        (back.to_string_base(u(2)).map(|x| x == t).unwrap_or(false)) as u8
                    ),
                    Err(e) => format!("{} ERR {:?}", t, e),
                },
                Err(e) => format!("ERR {:?}", e),
            }
        }
        // ---- Num
        "nbig" => {
            // nbig K I J : from_big_num(bI, bJ)
            let x = Num::from_big_num(regs.b[u(2)].clone(), regs.b[u(3)].clone());
            let o = num_obs(&x);
            setreg(&mut regs.n, u(1), x, Num::zero());
            o
        }
        "nnew" => {
            // nnew K up down
            let x = Num::new(f[2].parse::<isize>().unwrap(), f[3].parse::<usize>().unwrap());
            let o = num_obs(&x);
            setreg(&mut regs.n, u(1), x, Num::zero());
            o
        }
        "nnum" => {
            let x = Num::from_num(f[2].parse::<isize>().unwrap());
            let o = num_obs(&x);
            setreg(&mut regs.n, u(1), x, Num::zero());
            o
        }
        "nconst" => {
            // nconst K zero|one : the named constants
            let x = if f[2] == "zero" { Num::zero() } else { Num::one() };
            let o = num_obs(&x);
            setreg(&mut regs.n, u(1), x, Num::zero());
            o
        }
        "nnan" => {
            let x = Num::nan();
            let o = num_obs(&x);
            setreg(&mut regs.n, u(1), x, Num::zero());
            o
        }
        "nstr" => {
            // nstr K hex(text) : from_string
            let x = Num::from_string(unhex_str(f[2]));
            let o = num_obs(&x);
            setreg(&mut regs.n, u(1), x, Num::zero());
            o
        }
        "nop" => {
            // nop OP I J K -> is_pos is_nan same
            let a = regs.n[u(2)].clone();
            let b = regs.n[u(3)].clone();
            let (pure, inplace) = match f[1] {
                "add" => {
                    let mut c = a.clone();
                    c += &b;
                    (&a + &b, c)
                }
                "mul" => {
                    let mut c = a.clone();
                    c *= &b;
                    (&a * &b, c)
                }
                _ => return String::from("ERR op"),
            };
            let same = (pure == inplace || (pure.is_nan() && inplace.is_nan()))
                && pure.is_pos() == inplace.is_pos();
            let o = format!("{} {} {}", pure.is_pos() as u8, pure.is_nan() as u8, same as u8);
            setreg(&mut regs.n, u(4), pure, Num::zero());
            o
        }
        "nchk" => {
            // nchk I P Q P2 Q2 : compare rI with from_big_num(P,Q) (canonical spelling) and
            // from_big_num(P2,Q2) (another spelling of the same value) -> eq1 eq1rev eq2 is_pos is_nan
            let a = &regs.n[u(1)];
            let e1 = Num::from_big_num(big_lit(f[2]), big_lit(f[3]));
            let e2 = Num::from_big_num(big_lit(f[4]), big_lit(f[5]));
            format!(
                "{} {} {} {} {}",
                (a == &e1) as u8,
                (&e1 == a) as u8,
                (a == &e2) as u8,
                a.is_pos() as u8,
                a.is_nan() as u8
            )
        }
        "nun" => {
            // nun OP I K : neg | minus | flip
            let a = regs.n[u(2)].clone();
            let r = match f[1] {
                "neg" => -&a,
                "minus" => {
                    let mut c = a.clone();
                    c.minus();
                    c
                }
                "flip" => {
                    let mut c = a.clone();
                    c.flip();
                    c
                }
                _ => return String::from("ERR op"),
            };
            let o = num_obs(&r);
            setreg(&mut regs.n, u(3), r, Num::zero());
            o
        }
        "nfloor" => {
            // nfloor I -> bigobs of floor
            big_obs(&regs.n[u(1)].floor())
        }
        "ncmp" => {
            let a = &regs.n[u(1)];
            let b = &regs.n[u(2)];
            format!("{} {}", (a == b) as u8, ord_str(a.partial_cmp(b)))
        }
        "nobs" => num_obs(&regs.n[u(1)]),
        "nrt" => {
            // text round trip: from_string(to_string(x)) == x, and text again
            let a = &regs.n[u(1)];
            let t = a.to_string();
            let back = Num::from_string(t.clone());
            format!(
                "{}|{}|{}|{}",
                t,
                (&back == a) as u8,
                (back.to_string() == t) as u8,
                back.is_nan() as u8
            )
        }
        "calc" => {
            // calc hex(areaProgram) count I... : area::calc on the area of the first command of the
            // parsed text with the given count; pops come from the listed N registers in order, then NaN
            let prog = parse::parse(unhex_str(f[1]));
            let cnt = u(2);
            let mut vals: Vec<Num> = f[3..].iter().map(|x| regs.n[x.parse::<usize>().unwrap()].clone()).collect();
            vals.reverse();
            let mut pops = 0usize;
            let r = area::calc(prog[0].get_area(), cnt, || {
                pops += 1;
                Ok(vals.pop().unwrap_or_else(Num::nan))
            });
            match r {
                Ok(t) => format!("{} {}", t, pops),
                Err(_) => String::from("ERR"),
            }
        }
        _ => String::from("ERR unknown"),
    }
}

// ---------------------------------------------------------------- interpreter lock-step

fn num_lit(s: &str) -> Num {
    // "nan" | p | p/q with decimal integers (sign allowed on p); built from machine integers
    // where possible so that the value does not depend on text parsing
    if s == "nan" {
        return Num::nan();
    }
    let mut it = s.split('/');
    let p = it.next().unwrap();
    let q = it.next();
    let neg = p.starts_with('-');
    let pa = p.trim_start_matches('-');
    let pb = BigNum::from_string(pa.to_string()).unwrap();
    let qb = match q {
        Some(q) => BigNum::from_string(q.to_string()).unwrap(),
        None => BigNum::one(),
    };
    let mut n = Num::from_big_num(pb, qb);
    if neg {
        n.minus();
    }
    n
}

struct PreState {
    stacks: Vec<(usize, Vec<String>)>,
    cur: Option<usize>,
    points: Vec<(u128, usize)>,
    latest: Option<usize>,
}

fn parse_prestate(s: &str) -> PreState {
    // stacks=3:1,2,1/2;4:7 cur=4 points=17:0,33:2 latest=0   (space separated, all optional)
    let mut p = PreState {
        stacks: vec![],
        cur: None,
        points: vec![],
        latest: None,
    };
    for item in s.split(' ') {
        if item.is_empty() {
            continue;
        }
        let mut kv = item.splitn(2, '=');
        let k = kv.next().unwrap();
        let v = kv.next().unwrap_or("");
        match k {
            "stacks" => {
                for st in v.split(';') {
                    if st.is_empty() {
                        continue;
                    }
                    let mut a = st.splitn(2, ':');
                    let idx = a.next().unwrap().parse::<usize>().unwrap();
                    let vals = a.next().unwrap_or("");
                    let vs = if vals.is_empty() {
                        vec![]
                    } else {
                        vals.split(',').map(|x| x.to_string()).collect()
                    };
                    p.stacks.push((idx, vs));
                }
            }
            "cur" => p.cur = Some(v.parse().unwrap()),
            "points" => {
                for pt in v.split(',') {
                    if pt.is_empty() {
                        continue;
                    }
                    let mut a = pt.splitn(2, ':');
                    let id = a.next().unwrap().parse::<u128>().unwrap();
                    let loc = a.next().unwrap().parse::<usize>().unwrap();
                    p.points.push((id, loc));
                }
            }
            "latest" => p.latest = Some(v.parse().unwrap()),
            _ => {}
        }
    }
    p
}

fn apply_prestate(state: &mut UnOptState, p: &PreState) {
    for (idx, vals) in &p.stacks {
        for v in vals {
            state.push_stack(*idx, num_lit(v));
        }
    }
    if let Some(c) = p.cur {
        state.set_current_stack(c);
    }
    for (id, loc) in &p.points {
        state.set_point(*id, *loc);
    }
    if let Some(l) = p.latest {
        state.set_latest_loc(l);
    }
}

fn meta_line(state: &UnOptState) -> String {
    let mut pts = state.get_all_point();
    pts.sort();
    format!(
        "latest={:?} points={}",
        state.get_latest_loc(),
        pts.iter()
            .map(|(a, b)| format!("{}:{}", a, b))
            .collect::<Vec<_>>()
            .join(",")
    )
}

/// Child body: lock-step execution.  Step records go to fd 3 (unbuffered), text flushed at a
/// program-requested exit goes to fds 1/2 through the writers' flush callbacks.
fn trace_child(prog: &str, input: &str, pre: &str, start: usize, max_steps: usize) {
    let code = parse::parse(prog.to_string());
    let mut state = UnOptState::new();
    for c in &code {
        state.push_code(c.clone());
    }
    apply_prestate(&mut state, &parse_prestate(pre));
    let mut ipt = TextReader::new(input);
    let mut out = CustomWriter::new(|s| {
        write_fd(1, s.as_bytes());
        Ok(())
    });
    let mut err = CustomWriter::new(|s| {
        write_fd(2, s.as_bytes());
        Ok(())
    });
    let mut loc = start;
    let mut steps = 0usize;
    write_fd(3, format!("N {}\n", code.len()).as_bytes());
    while loc < code.len() && steps < max_steps {
        match execute::execute_one(&mut ipt, &mut out, &mut err, state, loc) {
            Ok((s, l)) => {
                state = s;
                loc = l;
                steps += 1;
                let o = out.to_string().unwrap_or_else(|_| String::from("<non-utf8>"));
                let e = err.to_string().unwrap_or_else(|_| String::from("<non-utf8>"));
                write_fd(
                    3,
                    format!(
                        "S {} {} {} {} {}\n",
                        loc,
                        hex(format!("{:?}", state).as_bytes()),
                        hex(o.as_bytes()),
                        hex(e.as_bytes()),
                        meta_line(&state)
                    )
                    .as_bytes(),
                );
            }
            Err(e) => {
                let o = out.to_string().unwrap_or_default();
                let er = err.to_string().unwrap_or_default();
                write_fd(
                    3,
                    format!(
                        "E {} {} {}\n",
                        hex(e.get_msg().as_bytes()),
                        hex(o.as_bytes()),
                        hex(er.as_bytes())
                    )
                    .as_bytes(),
                );
                return;
            }
        }
    }
    if loc >= code.len() {
        write_fd(3, b"D end\n");
    } else {
        write_fd(3, b"D budget\n");
    }
}

/// Child body: execute::execute fed command by command (the REPL / `run -O0` wiring) with
/// a step budget; afterwards final state, output.
fn incr_child(prog: &str, input: &str, budget: u64) {
    let code = parse::parse(prog.to_string());
    let mut state = UnOptState::new();
    let mut ipt = TextReader::new(input);
    let mut out = CustomWriter::new(|s| {
        write_fd(1, s.as_bytes());
        Ok(())
    });
    let mut err = CustomWriter::new(|s| {
        write_fd(2, s.as_bytes());
        Ok(())
    });
    hyeong::verif::set_step_budget(budget);
    for (i, c) in code.iter().enumerate() {
        match execute::execute(&mut ipt, &mut out, &mut err, state, c) {
            Ok(s) => {
                state = s;
                let o = out.to_string().unwrap_or_default();
                let e = err.to_string().unwrap_or_default();
                write_fd(
                    3,
                    format!(
                        "F {} {} {} {}\n",
                        i,
                        hex(format!("{:?}", state).as_bytes()),
                        hex(o.as_bytes()),
                        hex(e.as_bytes())
                    )
                    .as_bytes(),
                );
            }
            Err(e) => {
                let o = out.to_string().unwrap_or_default();
                let er = err.to_string().unwrap_or_default();
                write_fd(
                    3,
                    format!(
                        "E {} {} {}\n",
                        hex(e.get_msg().as_bytes()),
                        hex(o.as_bytes()),
                        hex(er.as_bytes())
                    )
                    .as_bytes(),
                );
                return;
            }
        }
    }
    write_fd(3, b"D end\n");
}

// ---------------------------------------------------------------- app-level children

static COLOR_ALWAYS: std::sync::atomic::AtomicBool = std::sync::atomic::AtomicBool::new(false);

/// colour mode of the app-level children: `never` unless the request ends with the word `always`
fn cc() -> ColorChoice {
    if COLOR_ALWAYS.load(std::sync::atomic::Ordering::Relaxed) {
        ColorChoice::Always
    } else {
        ColorChoice::Never
    }
}

fn set_color(word: Option<&&str>) {
    COLOR_ALWAYS.store(word.map(|w| *w == "always").unwrap_or(false), std::sync::atomic::Ordering::Relaxed);
}

fn opt_for(path: &str, level: u8) -> HyeongOption {
    HyeongOption::new()
        .color(cc())
        .input(PathBuf::from(path))
        .optimize(level)
}

/// the real `run::run`, wired exactly as `main` wires it
fn run_child(path: &str, level: u8, budget: u64) {
    hyeong::verif::set_step_budget(budget);
    let mut stdout = StandardStream::stdout(cc());
    let mut stderr = StandardStream::stderr(cc());
    let mut stderr_copy = StandardStream::stderr(cc());
    let r = hyeong::app::run::run(&mut stdout, &mut stderr_copy, &opt_for(path, level));
    hio::handle(&mut stderr, r);
}

fn check_child(path: &str) {
    let mut stdout = StandardStream::stdout(cc());
    let mut stderr = StandardStream::stderr(cc());
    let r = hyeong::app::check::run(&mut stdout, &opt_for(path, 0));
    hio::handle(&mut stderr, r);
}

fn debug_child(path: &str) {
    let mut stdout = StandardStream::stdout(cc());
    let mut stderr = StandardStream::stderr(cc());
    let r = hyeong::app::debug::run(&mut stdout, &opt_for(path, 0));
    hio::handle(&mut stderr, r);
}

fn repl_child() {
    let mut stdout = StandardStream::stdout(cc());
    let mut stderr = StandardStream::stderr(cc());
    let r = hyeong::app::interpreter::run(
        &mut stdout,
        &HyeongOption::new().color(cc()),
    );
    hio::handle(&mut stderr, r);
}

/// optimize + build_source; source text to fd 3
fn emit_child(prog: &str, level: u8) {
    let code = parse::parse(prog.to_string());
    let src = if level >= 1 {
        match optimize::optimize(code, level) {
            Ok((state, c)) => compile::build_source(state, &c, level),
            Err(e) => {
                write_fd(3, format!("OPTERR {}", e.get_msg()).as_bytes());
                return;
            }
        }
    } else {
        compile::build_source(UnOptState::new(), &code, level)
    };
    write_fd(3, b"SRC\n");
    write_fd(3, src.as_bytes());
}

/// C10: optimize only; completion record to fd 3
fn optsandbox_child(prog: &str, level: u8) {
    let code = parse::parse(prog.to_string());
    let n = code.len();
    hyeong::verif::reset_opt_steps();
    let r = optimize::optimize(code, level);
    let steps = hyeong::verif::opt_steps();
    match r {
        Ok((_, c)) => write_fd(3, format!("DONE ok {} {} {}", n, c.len(), steps).as_bytes()),
        Err(e) => write_fd(
            3,
            format!("DONE err {} {} {} {}", n, 0, steps, hex(e.get_msg().as_bytes())).as_bytes(),
        ),
    }
}

// ---------------------------------------------------------------- main loop

fn main() {
    unsafe {
        libc::prctl(libc::PR_SET_PDEATHSIG, libc::SIGKILL);
    }
    let fin = raw_file(0);
    let fout = raw_file(1);
    let mut rd = BufReader::with_capacity(1 << 16, &*fin);
    let mut wr = BufWriter::with_capacity(1 << 16, &*fout);
    let mut regs = Regs {
        b: vec![],
        n: vec![],
    };
    let mut line = String::new();
    loop {
        line.clear();
        let n = rd.read_line(&mut line).unwrap_or(0);
        if n == 0 {
            break;
        }
        let l = line.trim_end_matches('\n');
        let f: Vec<&str> = l.split('\t').collect();
        // watchdog for the modes that run the code under test inside this process: a request that does
        // not come back within the limit kills the shim (the client then pins down the request)
        let in_process = matches!(f[0], "parse" | "parsebulk" | "num");
        if in_process {
            unsafe {
                libc::alarm(WATCHDOG_S);
            }
        }
        match f[0] {
            "ping" => {
                writeln!(wr, "pong").unwrap();
            }
            "flush" => {
                writeln!(wr, "flushed").unwrap();
                wr.flush().unwrap();
            }
            "parse" => {
                // parse hex(text)
                let s = unhex_str(f[1]);
                writeln!(wr, "{}", parse_line(&s, true)).unwrap();
            }
            "parsebulk" => {
                // parsebulk hex(sym),hex(sym),... hex(prefix) rest
                let alphabet: Vec<String> = f[1].split(',').map(unhex_str).collect();
                let prefix = unhex_str(f[2]);
                let rest = f[3].parse::<usize>().unwrap();
                parse_bulk(&mut wr, &alphabet, &prefix, rest);
            }
            "parsefork" => {
                // parsefork hex(text) timeout : parse in a child (deep / long inputs)
                let s = unhex_str(f[1]);
                let t = f[2].parse::<u32>().unwrap();
                wr.flush().unwrap();
                let r = fork_run(b"", t, || {
                    let l = parse_line(&s, false);
                    // big outputs: only a digest of the structure plus counts
                    write_fd(3, l.as_bytes());
                });
                writeln!(wr, "{}", child_line(&r)).unwrap();
            }
            "num" => {
                // num <cmd...>
                let r = catch_unwind(AssertUnwindSafe(|| num_cmd(&mut regs, &f[1..])));
                match r {
                    Ok(s) => writeln!(wr, "{}", s).unwrap(),
                    Err(e) => writeln!(wr, "PANIC {}", panic_msg(e).replace('\n', " ")).unwrap(),
                }
            }
            "trace" => {
                // trace hex(prog) hex(stdin) hex(prestate) start max_steps
                let prog = unhex_str(f[1]);
                let input = unhex_str(f[2]);
                let pre = unhex_str(f[3]);
                let start = f[4].parse::<usize>().unwrap();
                let maxs = f[5].parse::<usize>().unwrap();
                wr.flush().unwrap();
                let r = fork_run(b"", 20, || trace_child(&prog, &input, &pre, start, maxs));
                writeln!(wr, "{}", child_line(&r)).unwrap();
            }
            "incr" => {
                let prog = unhex_str(f[1]);
                let input = unhex_str(f[2]);
                let budget = f[3].parse::<u64>().unwrap();
                wr.flush().unwrap();
                let r = fork_run(b"", 20, || incr_child(&prog, &input, budget));
                writeln!(wr, "{}", child_line(&r)).unwrap();
            }
            "run" => {
                // run hex(path) level budget hex(stdin) timeout
                let path = unhex_str(f[1]);
                let level = f[2].parse::<u8>().unwrap();
                let budget = f[3].parse::<u64>().unwrap();
                let input = unhex(f[4]);
                let t = f[5].parse::<u32>().unwrap();
                set_color(f.get(6));
                wr.flush().unwrap();
                let r = fork_run(&input, t, || run_child(&path, level, budget));
                writeln!(wr, "{}", child_line(&r)).unwrap();
            }
            "check" => {
                let path = unhex_str(f[1]);
                set_color(f.get(2));
                wr.flush().unwrap();
                let r = fork_run(b"", 20, || check_child(&path));
                writeln!(wr, "{}", child_line(&r)).unwrap();
            }
            "debug" => {
                // debug hex(path) hex(script) timeout
                let path = unhex_str(f[1]);
                let script = unhex(f[2]);
                let t = f[3].parse::<u32>().unwrap();
                set_color(f.get(4));
                wr.flush().unwrap();
                let r = fork_run(&script, t, || debug_child(&path));
                writeln!(wr, "{}", child_line(&r)).unwrap();
            }
            "repl" => {
                let script = unhex(f[1]);
                let t = f[2].parse::<u32>().unwrap();
                set_color(f.get(3));
                wr.flush().unwrap();
                let r = fork_run(&script, t, repl_child);
                writeln!(wr, "{}", child_line(&r)).unwrap();
            }
            "emit" => {
                // emit hex(prog) level
                let prog = unhex_str(f[1]);
                let level = f[2].parse::<u8>().unwrap();
                wr.flush().unwrap();
                let r = fork_run(b"", 20, || emit_child(&prog, level));
                writeln!(wr, "{}", child_line(&r)).unwrap();
            }
            "optsandbox" => {
                // optsandbox hex(prog) level hex(sentinel) timeout
                let prog = unhex_str(f[1]);
                let level = f[2].parse::<u8>().unwrap();
                let sentinel = unhex(f[3]);
                let t = f[4].parse::<u32>().unwrap();
                wr.flush().unwrap();
                let r = fork_run(&sentinel, t, || optsandbox_child(&prog, level));
                writeln!(wr, "{}", child_line(&r)).unwrap();
            }
            _ => {
                writeln!(wr, "ERR unknown mode").unwrap();
            }
        }
        if in_process {
            unsafe {
                libc::alarm(0);
            }
        }
        // answer as soon as no further request is already buffered
        if rd.buffer().is_empty() {
            wr.flush().unwrap();
        }
    }
    wr.flush().unwrap();
}
