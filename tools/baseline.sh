#!/bin/bash
# Runs the repository's own test suite (guard off) in $1 (default /repo) and reports
# how many tests passed / failed.  Expected on a healthy tree: 104 passed, 4 failed
# (build_test01..04 need the network and are in BASELINE.json's always_fail).
R=${1:-/repo}
cd "$R" || exit 2
OUT=$(CARGO_NET_OFFLINE=true cargo test --workspace --no-fail-fast --offline 2>&1)
P=$(echo "$OUT" | grep -E '^test .* \.\.\. ok$' | wc -l)
F=$(echo "$OUT" | grep -E '^test .* \.\.\. FAILED$' | grep -v 'build_test::build_test0[1-4]' )
echo "passed=$P"
if [ -n "$F" ]; then echo "unexpected failures:"; echo "$F"; exit 1; fi
if echo "$OUT" | grep -qE '^error(\[|:) ' && ! echo "$OUT" | grep -q 'test result'; then echo "$OUT" | tail -20; exit 2; fi
[ "$P" -ge 104 ] || { echo "expected >= 104 passing tests"; exit 1; }
echo "baseline ok"
