#!/usr/bin/env python3
"""tools/mut.py FILE OLD NEW [N] -- CHECK...   replace the N-th (default 1st; 0 = all) occurrence of OLD by NEW in
/repo/FILE, run the quick checks given, and restore the file."""
import subprocess, sys
args = sys.argv[1:]
i = args.index('--')
f, old, new = args[0], args[1], args[2]
n = int(args[3]) if i > 3 else 1
checks = args[i + 1:]
p = '/repo/' + f
src = open(p).read()
if old not in src:
    sys.exit('OLD not found')
if n == 0:
    out = src.replace(old, new)
else:
    parts = src.split(old)
    if len(parts) <= n:
        sys.exit('only %d occurrences' % (len(parts) - 1))
    out = old.join(parts[:n]) + new + old.join(parts[n:])
open(p, 'w').write(out)
try:
    for c in checks:
        r = subprocess.run(['./check', c, '--tier', 'quick'], cwd='/verif', stdout=subprocess.PIPE, stderr=subprocess.STDOUT)
        lines = r.stdout.decode().split('\n')
        keep = [l for l in lines if 'violations=' in l or l.startswith('VIOLATION') or 'classes (all' in l or 'MACHINERY' in l or 'error' in l]
        print('\n'.join(keep[:4]), '-> exit', r.returncode)
finally:
    open(p, 'w').write(src)
