#!/usr/bin/env python3
"""Systematic one-token mutation of the project's sources, judged by the quick checks.

    tools/mutate.py list [STRIDE]            print the mutants that would be tried (every STRIDE-th site per file and operator)
    tools/mutate.py run LANE NLANES STRIDE   work through the mutants k with k % NLANES == LANE in the scratch copy
                                             /tmp/mut/lane<LANE>/{repo,verif}; results -> /tmp/mut/results-<LANE>.jsonl
    tools/mutate.py summary                  collect /tmp/mut/results-*.jsonl into /verif/mutation/summary.json

Operators: relational (< <= > >= == !=), arithmetic (+ - swapped, +1 / -1 dropped), boolean (&& || swapped, true/false,
a negation removed), constants (literal n >= 2 -> n + 1), statement deletion (reverse / clear / flush / push / pop /
minus / flip / optimize / break / continue).  Comment lines, attributes, `use` lines, the verif hook module and the
parts of the tool that cannot run offline (build.rs, init.rs) are left alone.  Nothing here touches /repo: every lane
works in its own git worktree of /repo and its own clone of /verif (own build directory)."""
import json
import os
import re
import subprocess
import sys
import time

SRC = ['src/number/big_number.rs', 'src/number/num.rs', 'src/core/parse.rs', 'src/core/area.rs', 'src/core/code.rs',
       'src/core/execute.rs', 'src/core/state.rs', 'src/core/optimize.rs', 'src/core/compile.rs', 'src/app/debug.rs',
       'src/app/interpreter.rs', 'src/app/run.rs', 'src/app/check.rs', 'src/util/io.rs', 'src/util/ext.rs',
       'src/util/error.rs', 'src/util/option.rs', 'src/main.rs']
CHECKS = {
    'src/number/big_number.rs': ['C05', 'C09', 'C06'], 'src/number/num.rs': ['C06', 'C07', 'C09', 'C01'],
    'src/core/parse.rs': ['C04', 'C08', 'C01'], 'src/core/area.rs': ['C07', 'C01', 'C04', 'C03'],
    'src/core/code.rs': ['C04', 'C08', 'C01', 'C11'], 'src/core/execute.rs': ['C01', 'C14', 'C12', 'C02'],
    'src/core/state.rs': ['C01', 'C02', 'C11', 'C03'], 'src/core/optimize.rs': ['C02', 'C10', 'C03'],
    'src/core/compile.rs': ['C03', 'C14'], 'src/app/debug.rs': ['C11'], 'src/app/interpreter.rs': ['C12'],
    'src/app/run.rs': ['C02', 'C01', 'C13', 'C14'], 'src/app/check.rs': ['C08', 'C04', 'C13', 'C11'],
    'src/util/io.rs': ['C13', 'C14', 'C01', 'C11', 'C12'], 'src/util/ext.rs': ['C13', 'C01', 'C14', 'C03'],
    'src/util/error.rs': ['C13', 'C02'], 'src/util/option.rs': ['C13', 'C02'], 'src/main.rs': ['C13', 'C02', 'C12', 'C11'],
}
OPS = [
    ('rel', re.compile(r' (<=|>=|==|!=|<|>) '), {'<=': '<', '<': '<=', '>=': '>', '>': '>=', '==': '!=', '!=': '=='}),
    ('arith', re.compile(r' (\+|-) (?!=)'), {'+': '-', '-': '+'}),
    ('inc', re.compile(r' (\+|-) 1\b'), None),                      # drop "+ 1" / "- 1"
    ('bool', re.compile(r' (&&|\|\|) '), {'&&': '||', '||': '&&'}),
    ('lit', re.compile(r'\b(true|false)\b'), {'true': 'false', 'false': 'true'}),
    ('neg', re.compile(r'(?<![=!<>])!(?=[a-z_(])'), None),             # remove a negation
    ('const', re.compile(r'(?<![\w.\[{])([2-9]|[1-9][0-9]{1,5})(?![\w.\]}])'), None),
    ('del', re.compile(r'^\s*[^/\s][^;]*\.(reverse|clear|flush|minus|flip|optimize|pop)\(\)(\.unwrap\(\))?\??;\s*$|^\s*(break|continue);\s*$'), None),
]


OPS2 = [
    ('zero-one', re.compile(r'(?<![\w.])([01])(?![\w.])(?!\s*=>)'), {'0': '1', '1': '0'}),
    ('range', re.compile(r'(\.\.=|\.\.)(?=[\w(&*\]])'), {'..=': '..', '..': '..='}),
    ('rev', re.compile(r'\.rev\(\)'), None),
    ('minmax', re.compile(r'\b(min|max)\('), {'min': 'max', 'max': 'min'}),
    ('lr', re.compile(r'\b(left|right)\b'), {'left': 'right', 'right': 'left'}),
    ('firstlast', re.compile(r'\.(first|last)(_mut)?\(\)'), {'first': 'last', 'last': 'first'}),
]
if os.environ.get('MUT_OPS') == '2':
    OPS = OPS2


def eligible(line):
    t = line.strip()
    if not t or t.startswith('//') or t.startswith('#[') or t.startswith('use ') or t.startswith('pub use '):
        return False
    if t.startswith('*') or t.startswith('/*'):
        return False
    return True


def code_part(line):
    """the part of a line before a trailing // comment (string literals with // are rare here: treated as code)"""
    i = line.find('//')
    return line if i < 0 else line[:i]


def sites(repo):
    out = []
    for f in SRC:
        lines = open(os.path.join(repo, f), encoding='utf-8').read().split('\n')
        in_verif = False
        in_test = False
        for n, line in enumerate(lines):
            if 'cfg(feature = "verif")' in line or 'cfg(test)' in line:
                in_verif = True
                continue
            if in_verif:                      # the statement guarded by the attribute
                in_verif = False
                continue
            if not eligible(line):
                continue
            code = code_part(line)
            if '"' in code and not code.strip().startswith(('if ', 'while ', '} else if ')):
                # lines that are mostly text (messages, emitted source templates) - except conditions
                if code.count('"') >= 2 and ('write!' in code or 'format!' in code or 'print' in code or 'Error::new' in code or code.strip().startswith('"')):
                    continue
            for name, rx, table in OPS:
                for m in rx.finditer(code):
                    if name == 'rev':
                        new = code[:m.start()] + code[m.end():] + line[len(code):]
                    elif name == 'del':
                        new = ''
                    elif name == 'inc':
                        new = code[:m.start()] + code[m.end():] + line[len(code):]
                    elif name == 'neg':
                        new = code[:m.start()] + code[m.end():] + line[len(code):]
                    elif name == 'const':
                        v = int(m.group(1))
                        new = code[:m.start(1)] + str(v + 1) + code[m.end(1):] + line[len(code):]
                    else:
                        tok = m.group(1)
                        new = code[:m.start(1)] + table[tok] + code[m.end(1):] + line[len(code):]
                    if new != line:
                        out.append({'file': f, 'line': n + 1, 'op': name, 'old': line, 'new': new})
    return out


def select(all_sites, stride):
    """every stride-th site per (file, operator), deterministic"""
    seen = {}
    out = []
    for s in all_sites:
        k = (s['file'], s['op'])
        i = seen.get(k, 0)
        seen[k] = i + 1
        if i % stride == (stride // 2 + int(os.environ.get('MUT_OFFSET', '0'))) % stride:
            out.append(s)
    return out


def sh(cmd, cwd=None, env=None, timeout=3600):
    p = subprocess.run(cmd, shell=True, cwd=cwd, stdout=subprocess.PIPE, stderr=subprocess.STDOUT, env=env, timeout=timeout)
    return p.returncode, p.stdout.decode('utf-8', 'replace')


def lane(k, n, stride):
    d = os.environ.get('MUT_DIR', str(k))           # scratch directory of this worker (default: the lane number)
    base = '/tmp/mut/lane' + d
    repo, verif = base + '/repo', base + '/verif'
    os.makedirs(base, exist_ok=True)
    if not os.path.exists(repo):
        rc, out = sh('git -C /repo worktree add --detach %s HEAD' % repo)
        assert rc == 0, out
        sh('cp /repo/Cargo.lock %s/' % repo)
    if not os.path.exists(verif):
        rc, out = sh('git clone -q /verif %s' % verif)
        assert rc == 0, out
    muts = select(sites(repo), stride)
    mine = [m for i, m in enumerate(muts) if i % n == k]
    env = dict(os.environ, HYEONG_REPO=repo, CARGO_NET_OFFLINE='true')
    res = open('/tmp/mut/results-%s.jsonl' % d, 'a')
    done = set()
    if os.path.exists('/tmp/mut/results-%s.jsonl' % d):
        for l in open('/tmp/mut/results-%s.jsonl' % d):
            try:
                r = json.loads(l)
                done.add((r['file'], r['line'], r['op'], r['new']))
            except ValueError:
                pass
    for m in mine:
        if (m['file'], m['line'], m['op'], m['new']) in done:
            continue
        p = os.path.join(repo, m['file'])
        src = open(p, encoding='utf-8').read()
        lines = src.split('\n')
        assert lines[m['line'] - 1] == m['old']
        lines[m['line'] - 1] = m['new']
        open(p, 'w', encoding='utf-8').write('\n'.join(lines))
        t0 = time.time()
        verdict, by, detail = 'survived', None, []
        try:
            for c in CHECKS[m['file']]:
                rc, out = sh('./check %s --tier quick' % c, verif, env)
                tail = [l for l in out.split('\n') if 'violations=' in l or 'MACHINERY' in l or 'build failed' in l or 'classes (all' in l]
                detail.append((c, rc, tail[:2]))
                if 'build failed' in out:
                    verdict = 'does-not-compile'
                    break
                if rc == 1:
                    verdict, by = 'killed', c
                    break
                if rc == 2:
                    verdict, by = 'machinery-error', c
                    break
        finally:
            open(p, 'w', encoding='utf-8').write(src)
            sh('rm -f %s/replays/*.json' % verif)
        m2 = dict(m, verdict=verdict, by=by, detail=detail, wall_s=round(time.time() - t0, 1))
        res.write(json.dumps(m2, ensure_ascii=False) + '\n')
        res.flush()
        print('%-28s %4d %-6s %-16s %s  (%.0fs)' % (m['file'], m['line'], m['op'], verdict, by or '', time.time() - t0), flush=True)


def summary():
    import glob
    rows = []
    for f in sorted(glob.glob('/tmp/mut/results-*.jsonl')):
        for l in open(f):
            try:
                rows.append(json.loads(l))
            except ValueError:
                pass
    os.makedirs('/verif/mutation', exist_ok=True)
    by = {}
    for r in rows:
        by.setdefault(r['verdict'], []).append(r)
    out = {'total': len(rows), 'verdicts': {k: len(v) for k, v in by.items()},
           'survivors': [{k: r[k] for k in ('file', 'line', 'op', 'old', 'new')} for r in by.get('survived', [])],
           'machinery_errors': [{k: r[k] for k in ('file', 'line', 'op', 'old', 'new', 'by', 'detail')} for r in by.get('machinery-error', [])],
           'killed_by': {}}
    for r in by.get('killed', []):
        out['killed_by'][r['by']] = out['killed_by'].get(r['by'], 0) + 1
    json.dump(out, open('/verif/mutation/summary.json', 'w'), indent=1, ensure_ascii=False)
    json.dump(rows, open('/verif/mutation/all.json', 'w'), indent=0, ensure_ascii=False)
    print(json.dumps({k: out[k] for k in ('total', 'verdicts', 'killed_by')}))


if __name__ == '__main__':
    if sys.argv[1] == 'list':
        stride = int(sys.argv[2]) if len(sys.argv) > 2 else 1
        ms = select(sites('/repo'), stride)
        cnt = {}
        for m in ms:
            cnt[(m['file'], m['op'])] = cnt.get((m['file'], m['op']), 0) + 1
        for m in ms[:int(os.environ.get('SHOW', '0'))]:
            print(m['file'], m['line'], m['op'], '|', m['old'].strip(), '=>', m['new'].strip())
        print(len(ms), 'mutants;', json.dumps({'%s:%s' % k: v for k, v in sorted(cnt.items())}))
    elif sys.argv[1] == 'run':
        lane(int(sys.argv[2]), int(sys.argv[3]), int(sys.argv[4]))
    else:
        summary()
