#!/usr/bin/env python3
"""tools/refactor_check.py ID NAME [CHECK...]   behaviour-preserving change prepared in /tmp/seed/ID (uncommitted diff):
the repository's suite must pass with it; then every quick check (or the listed ones) is run against /repo with the
patch applied and must stay silent.  Results are stored under /verif/refactors/NAME/."""
import json, os, subprocess, sys, time
ID, NAME = sys.argv[1], sys.argv[2]
CHECKS = sys.argv[3:] or ['C%02d' % i for i in range(1, 15)]
WT = '/tmp/seed/' + ID
OUT = '/verif/refactors/' + NAME
def sh(cmd, cwd=None):
    p = subprocess.run(cmd, shell=True, cwd=cwd, stdout=subprocess.PIPE, stderr=subprocess.STDOUT,
                       env=dict(os.environ, CARGO_NET_OFFLINE='true'))
    return p.returncode, p.stdout.decode('utf-8', 'replace')
rc, patch = sh('git diff -- src', WT)
if not patch.strip():
    sys.exit('no diff')
os.makedirs(OUT, exist_ok=True)
open(OUT + '/patch.diff', 'w').write(patch)
rc, out = sh('/verif/tools/baseline.sh ' + WT)
suite = out.strip().split('\n')[-2:]
print('suite:', suite)
rc, st = sh('git status --short', '/repo')
assert not st.strip(), st
open('/tmp/seed/%s.patch' % ID, 'w').write(patch)
rc, out = sh('git apply /tmp/seed/%s.patch' % ID, '/repo')
assert rc == 0, out
res = {}
try:
    for c in CHECKS:
        t0 = time.time()
        rc, out = sh('./check %s --tier quick' % c, '/verif')
        lines = [l for l in out.split('\n') if 'violations=' in l or 'classes (all' in l or 'MACHINERY' in l or l.startswith('  class=')]
        res[c] = {'exit': rc, 'wall_s': round(time.time() - t0, 1), 'summary': lines[:4]}
        print(c, rc, lines[:1] if rc == 0 else lines[:4], flush=True)
finally:
    sh('git checkout -- .', '/repo')
meta = {'id': NAME, 'lines_changed': sum(1 for l in patch.split('\n') if l[:1] in '+-' and l[:3] not in ('+++', '---')),
        'suite_with_change': suite, 'checks': res, 'alarms': [c for c, r in res.items() if r['exit'] != 0]}
if os.path.exists(WT + '/seed_demo/meta.txt'):
    meta['description'] = open(WT + '/seed_demo/meta.txt').read()[:6000]
json.dump(meta, open(OUT + '/meta.json', 'w'), indent=1, ensure_ascii=False)
print('ALARMS:', meta['alarms'] or 'none')
