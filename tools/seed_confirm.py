#!/usr/bin/env python3
"""tools/seed_confirm.py ID NAME CHECK...

Confirms a seeded change prepared in the scratch worktree /tmp/seed/ID (uncommitted diff + seed_demo/):
  1. the project's own suite still passes with the change         (tools/baseline.sh <worktree>)
  2. the demonstration fails with the change and passes without it
  3. the listed quick checks are run against /repo with the patch applied (git apply), then /repo is restored
and stores everything under /verif/seeded/NAME/ (patch.diff, demonstration, meta.json).
"""
import json
import os
import shutil
import subprocess
import sys
import time

import os as _os
ID, NAME = sys.argv[1], sys.argv[2]
CHECKS = sys.argv[3:]
WT = '/tmp/seed/' + ID
VERIF = os.path.dirname(os.path.dirname(os.path.abspath(__file__)))
INPLACE = bool(os.environ.get('SEED_INPLACE'))     # run the checks against the worktree itself instead of patching /repo
OUT = VERIF + '/seeded/' + NAME
ENV = dict(os.environ, CARGO_NET_OFFLINE='true')


def sh(cmd, cwd=None, timeout=3600):
    p = subprocess.run(cmd, shell=True, cwd=cwd, stdout=subprocess.PIPE, stderr=subprocess.STDOUT, env=ENV, timeout=timeout)
    return p.returncode, p.stdout.decode('utf-8', 'replace')


def run_demo():
    if os.path.exists(os.path.join(WT, 'seed_demo', 'demo_test.rs')):
        shutil.copy(os.path.join(WT, 'seed_demo', 'demo_test.rs'), os.path.join(WT, 'tests', 'demo_test.rs'))
        rc, out = sh('cargo test --offline --test demo_test 2>&1 | tail -40', WT)
        os.unlink(os.path.join(WT, 'tests', 'demo_test.rs'))
        ok = 'test result: ok' in out and 'FAILED' not in out
        return ok, out[-1500:]
    rc, out = sh("bash -c 'bash seed_demo/demo.sh > /tmp/seed/demo.out 2>&1; rc=$?; tail -40 /tmp/seed/demo.out; exit $rc'", WT)
    return rc == 0, out[-1500:]


def main():
    rc, patch = sh('git diff -- src', WT)
    if not patch.strip():
        sys.exit('no diff in ' + WT)
    rc, stat = sh('git status --short', WT)
    print(stat)
    os.makedirs(OUT, exist_ok=True)
    open(os.path.join(OUT, 'patch.diff'), 'w').write(patch)
    meta = {'id': NAME, 'worktree': WT, 'ran': []}
    # 1. suite with the change
    rc, out = sh(VERIF + '/tools/baseline.sh ' + WT)
    meta['suite_with_change'] = out.strip().split('\n')[-3:]
    print('suite with change:', meta['suite_with_change'])
    suite_ok = rc == 0
    # 2. demo both ways
    ok_with, log_with = run_demo()
    open('/tmp/seed/%s.patch' % ID, 'w').write(patch)
    rc, out = sh('git apply -R /tmp/seed/%s.patch' % ID, WT)
    assert rc == 0, out
    try:
        ok_without, log_without = run_demo()
    finally:
        rc, out = sh('git apply /tmp/seed/%s.patch' % ID, WT)
        assert rc == 0, out
    meta['demo_fails_with_change'] = not ok_with
    meta['demo_passes_without_change'] = ok_without
    print('demo with change passes=%s ; without change passes=%s' % (ok_with, ok_without))
    # 3. checks on /repo with the patch
    if not INPLACE:
        rc, st = sh('git status --short', '/repo')
        assert not st.strip(), '/repo not clean: ' + st
        rc, out = sh('git apply /tmp/seed/%s.patch' % ID, '/repo')
        assert rc == 0, out
    results = {}
    try:
        for c in CHECKS:
            t0 = time.time()
            rc, out = sh(('HYEONG_REPO=%s ' % WT if INPLACE else '') + './check %s --tier quick' % c, VERIF)
            lines = [l for l in out.split('\n') if 'violations=' in l or l.startswith('VIOLATION') or 'classes (all' in l or 'MACHINERY' in l]
            results[c] = {'exit': rc, 'wall_s': round(time.time() - t0, 1), 'summary': lines[:3]}
            print(c, rc, lines[:3])
    finally:
        if not INPLACE:
            sh('git checkout -- .', '/repo')
        sh('rm -f %s/replays/*.json' % VERIF)
    meta['checks'] = results
    meta['detected_by'] = [c for c, r in results.items() if r['exit'] == 1]
    meta['confirmed'] = bool(suite_ok and not ok_with and ok_without)
    # copy the demonstration
    d = os.path.join(OUT, 'demo')
    shutil.rmtree(d, ignore_errors=True)
    shutil.copytree(os.path.join(WT, 'seed_demo'), d)
    for f in os.listdir(d):
        if os.path.getsize(os.path.join(d, f)) > 200000:
            os.unlink(os.path.join(d, f))
    meta['ran'] = ['tools/baseline.sh %s (suite with the change)' % WT, 'demonstration with and without the change',
                   'git -C /repo apply patch.diff; ./check <id> --tier quick for ' + ' '.join(CHECKS) + '; git -C /repo checkout -- .']
    json.dump(meta, open(os.path.join(OUT, 'meta.json'), 'w'), indent=1, ensure_ascii=False)
    print(json.dumps({k: meta[k] for k in ('confirmed', 'detected_by')}))


main()
