#!/usr/bin/env python3
"""Re-runs, for every seeded change under /verif/seeded, the quick check of the property it breaks (and updates
meta.json 'regress'): apply the patch to /repo, run, restore.  /repo must be clean."""
import glob, json, os, subprocess, sys, time
st = subprocess.run(['git', '-C', '/repo', 'status', '--short'], stdout=subprocess.PIPE).stdout.decode().strip()
if st:
    sys.exit('/repo not clean')
only = sys.argv[1:]
bad = []
for d in sorted(glob.glob('/verif/seeded/*/')):
    name = os.path.basename(d.rstrip('/'))
    if only and not any(name.startswith(o) for o in only):
        continue
    m = json.load(open(d + 'meta.json'))
    prop = m.get('property') or name[:3]
    r = subprocess.run(['git', '-C', '/repo', 'apply', d + 'patch.diff'])
    if r.returncode:
        print(name, 'PATCH DOES NOT APPLY'); bad.append(name); continue
    t0 = time.time()
    try:
        p = subprocess.run(['./check', prop, '--tier', 'quick'], cwd='/verif', stdout=subprocess.PIPE, stderr=subprocess.STDOUT)
    finally:
        subprocess.run(['git', '-C', '/repo', 'checkout', '--', '.'])
        subprocess.run('rm -f /verif/replays/*.json', shell=True)
    m['regress'] = {'check': prop, 'exit': p.returncode, 'wall_s': round(time.time() - t0, 1)}
    json.dump(m, open(d + 'meta.json', 'w'), indent=1, ensure_ascii=False)
    print('%-42s %s exit=%d (%.0fs)' % (name, prop, p.returncode, time.time() - t0), flush=True)
    if p.returncode != 1:
        bad.append(name)
print('not detected:', bad or 'none')
