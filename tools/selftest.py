#!/usr/bin/env python3
"""Self-test of the checks against a list of one-line mutations of /repo (each applied, checked, restored).
Prints one line per mutation: which of the listed quick checks raised a VIOLATION.  /repo must be clean."""
import subprocess
import sys
import time

M = [
    # (name, file, old, new, occurrence, checks expected to catch it)
    ('exec-no-reverse-neg', 'src/core/execute.rs', 'v.reverse();', '', 1, ['C01']),
    ('exec-jump-always', 'src/core/execute.rs', 'if cur_loc != value {', 'if true {', 1, ['C01']),
    ('exec-exit-code', 'src/core/execute.rs', 'process::exit(1);', 'process::exit(0);', 1, ['C01', 'C11']),
    ('state-nan-bottom', 'src/core/state.rs', 'if !st.is_empty() || !num.is_nan() {', 'if !num.is_nan() {', 1, ['C01']),
    ('area-less-or-equal', 'src/core/area.rs', 'Some(Ordering::Less) => left,', 'Some(Ordering::Less) | Some(Ordering::Equal) => left,', 1, ['C07', 'C01']),
    ('opt-guard-kind5', 'src/core/optimize.rs', 'if cur_stack <= 2 {', 'if cur_stack < 2 {', 5, ['C10', 'C02']),
    ('opt-guard-area', 'src/core/optimize.rs', 'if cur_stack <= 2 {\n                Err', 'if cur_stack < 1 {\n                Err', 1, ['C10', 'C02']),
    ('opt-size', 'src/core/optimize.rs', 'size = max + 1;', 'size = max;', 1, ['C02']),
    ('opt-renumber-shared', 'src/core/optimize.rs', '                chk.push(now);\n            }', '            }', 1, ['C02']),
    ('run-forget-clear-stack1', 'src/app/run.rs', 'state.get_stack(1).clear();', '', 1, ['C02']),
    ('compile-area-less', 'src/core/compile.rs', 'if *type_ == 0 { "Less" } else { "Equal" }', 'if *type_ == 0 { "Less" } else { "Less" }', 1, ['C03']),
    ('compile-label-shift', 'src/core/compile.rs', '((cnt as u128) << 4) + *type_ as u128', '((cnt as u128) << 3) + *type_ as u128', 1, ['C03']),
    ('compile-state-inc', 'src/core/compile.rs', 'stack.last().unwrap().0 + i', 'stack.last().unwrap().0 + i + 1', 1, ['C03']),
    ('compile-stdin-pop', 'src/core/compile.rs', 'for c in s.chars().rev() {\n                            self.data[0]', 'for c in s.chars() {\n                            self.data[0]', 1, ['C14', 'C03']),
    ('parse-end-class', 'src/core/parse.rs', '} else if t <= 6 {', '} else if t < 6 {', 1, ['C04', 'C08']),
    ('parse-ellipsis-count', 'src/core/parse.rs', "if c == '.' { 1 } else { 3 }", "if c == '.' { 1 } else { 2 }", 1, ['C04', 'C08']),
    ('parse-column', 'src/core/parse.rs', 'last_line_started = i + 1;', 'last_line_started = i;', 1, ['C04']),
    ('parse-hangul-range', 'src/core/parse.rs', "('\\u{AC00}'..='\\u{D7A3}')", "('\\u{AC00}'..'\\u{D7A3}')", 1, ['C04']),
    ('big-add-carry', 'src/number/big_number.rs', 'if t >= 1u64 << 32 {', 'if t > 1u64 << 32 {', 1, ['C05']),
    ('big-less-core', 'src/number/big_number.rs', 'return lhs[i] < rhs[i];', 'return lhs[i] <= rhs[i];', 1, ['C05']),
    ('big-div-sign', 'src/number/big_number.rs', 'let mut res = BigNum::from_vec(BigNum::div_core(&lhs.val, &rhs.val));\n\n        if lhs.pos ^ rhs.pos {', 'let mut res = BigNum::from_vec(BigNum::div_core(&lhs.val, &rhs.val));\n\n        if !lhs.pos {', 1, ['C05']),
    ('big-base-digit', 'src/number/big_number.rs', "(b'A' + k.val[0] as u8 - 10) as char", "(b'a' + k.val[0] as u8 - 10) as char", 1, ['C09']),
    ('num-flip-sign', 'src/number/num.rs', 'if !self.down.is_pos() {', 'if self.down.is_pos() {', 1, ['C06']),
    ('num-nan-mul', 'src/number/num.rs', 'if lhs.is_nan() || rhs.is_nan() {\n            return Num::nan();\n        }\n\n        let mut res = Num {\n            up: &lhs.up * &rhs.up,', 'if lhs.is_nan() && rhs.is_nan() {\n            return Num::nan();\n        }\n\n        let mut res = Num {\n            up: &lhs.up * &rhs.up,', 1, ['C06']),
    ('num-cmp-swap', 'src/number/num.rs', '&self.up * &other.down < &self.down * &other.up', '&self.up * &other.down < &self.down * &other.down', 1, ['C07', 'C01']),
    ('num-from-string-neg', 'src/number/num.rs', "let neg = s.starts_with('-');", 'let neg = false && s.starts_with(\'-\');', 1, ['C09', 'C03']),
    ('debug-break-range', 'src/app/debug.rs', 'if num >= un_opt_code.len() {', 'if num > un_opt_code.len() {', 1, ['C11']),
    ('debug-prev-twice', 'src/app/debug.rs', 'if state_stack.len() > 1 {', 'if state_stack.len() > 2 {', 1, ['C11']),
    ('repl-no-flush-err', 'src/app/interpreter.rs', '        out.flush().unwrap();\n        err.flush().unwrap();\n    }', '        out.flush().unwrap();\n    }', 1, ['C12']),
    ('repl-colour-trims', 'src/app/interpreter.rs', '                writeln!(stdout, "] {}", x)?;', '                if stdout.supports_color() {\n                    writeln!(stdout, "] {}", x.trim_end())?;\n                } else {\n                    writeln!(stdout, "] {}", x)?;\n                }', 1, ['C12']),
    ('io-extension', 'src/util/io.rs', 'if p == OsStr::new("hyeong") {', 'if p == OsStr::new("hyeong") || p == OsStr::new("txt") {', 1, ['C13']),
    ('ext-scalar-check', 'src/util/ext.rs', 'std::char::from_u32(n).ok_or_else(|| {', 'Some(std::char::from_u32(n).unwrap()).ok_or_else(|| {', 1, ['C13', 'C01']),
    ('exec-stdin-order', 'src/core/execute.rs', 'for c in s.chars().rev() {', 'for c in s.chars() {', 1, ['C14', 'C01']),
]


def main():
    only = sys.argv[1:]
    st = subprocess.run(['git', '-C', '/repo', 'status', '--short'], stdout=subprocess.PIPE).stdout.decode().strip()
    if st:
        sys.exit('/repo is not clean:\n' + st)
    missed = []
    for name, f, old, new, n, checks in M:
        if only and name not in only:
            continue
        p = '/repo/' + f
        src = open(p).read()
        parts = src.split(old)
        if len(parts) <= n:
            print('%-28s SKIP (pattern not found %d times)' % (name, n))
            continue
        open(p, 'w').write(old.join(parts[:n]) + new + old.join(parts[n:]))
        res = []
        t0 = time.time()
        try:
            for c in checks:
                r = subprocess.run(['./check', c, '--tier', 'quick'], cwd='/verif', stdout=subprocess.PIPE, stderr=subprocess.STDOUT)
                res.append('%s=%s' % (c, {0: 'silent', 1: 'VIOLATION', 2: 'machinery-error'}.get(r.returncode, r.returncode)))
        finally:
            open(p, 'w').write(src)
            subprocess.run('rm -f /verif/replays/*.json', shell=True)
        ok = any('VIOLATION' in x for x in res)
        if not ok:
            missed.append(name)
        print('%-28s %s  (%.0fs)%s' % (name, ' '.join(res), time.time() - t0, '' if ok else '   <-- MISSED'), flush=True)
    print('missed: %s' % (missed or 'none'))


main()
