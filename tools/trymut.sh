#!/bin/bash
# usage: tools/trymut.sh <patchfile|-e sedexpr file> -- <check args...>
# applies a change to /repo, runs ./check with the given args, reverts the change.
set -u
cd /verif
if [ "$1" = "-e" ]; then
  sed -i "$2" "/repo/$3"; shift 3
else
  git -C /repo apply "$1" || exit 2; shift 1
fi
[ "$1" = "--" ] && shift
git -C /repo diff --stat | tail -1
rc=0
for p in "$@"; do
  ./check $p --tier ${TIER:-quick} 2>&1 | grep -E "VIOLATION|violations=|MACHINERY|KNOWN" | head -4
done
git -C /repo checkout -- .
